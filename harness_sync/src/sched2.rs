//! Baton scheduler for the instrumented build: scheduling points are the subject's own synchronisation operations (through the
//! shim `pairing_plus::verif_sync`), threads may be created by the subject, and an operation that cannot proceed hands the baton
//! on.  Deviation (preemption)-bounded exhaustive exploration by re-execution, as in /verif/harness/src/sched.rs.
use pairing_plus::verif_sync::{set_runtime, Runtime};
use std::collections::BTreeSet;
use std::sync::atomic::{AtomicU64, Ordering};
use std::sync::{Arc, Condvar, Mutex};

pub static PROGRESS: AtomicU64 = AtomicU64::new(0);
/// description of the run in progress (for the deadlock report, which ends the process)
pub static CONTEXT: Mutex<String> = Mutex::new(String::new());

#[derive(Clone, Debug, PartialEq, Eq)]
pub struct Choice {
    pub enabled: Vec<usize>,
    pub chosen: usize,
    /// Some(t): thread t was running and could have continued (choosing another index is a preemption)
    pub running: Option<usize>,
    pub point: u32,
}

struct Inner {
    n0: usize,
    arrived: usize,
    current: Option<usize>,
    finished: Vec<bool>,
    prefix: Vec<usize>,
    trace: Vec<Choice>,
    abort: Option<String>,
    /// threads that found themselves unable to proceed since the last progress event
    blocked: BTreeSet<usize>,
    sync_points: u64,
    threads_created: usize,
}

pub struct Sched {
    inner: Mutex<Inner>,
    cv: Condvar,
    max_steps: usize,
}

pub fn json_str(s: &str) -> String {
    let mut o = String::from("\"");
    for c in s.chars() {
        match c {
            '"' => o.push_str("\\\""),
            '\\' => o.push_str("\\\\"),
            '\n' => o.push_str("\\n"),
            c if (c as u32) < 0x20 => o.push_str(&format!("\\u{:04x}", c as u32)),
            c => o.push(c),
        }
    }
    o.push('"');
    o
}

impl Sched {
    pub fn new(n0: usize, prefix: Vec<usize>, max_steps: usize) -> Arc<Sched> {
        Arc::new(Sched {
            inner: Mutex::new(Inner { n0, arrived: 0, current: None, finished: vec![false; n0], prefix, trace: vec![], abort: None, blocked: BTreeSet::new(), sync_points: 0, threads_created: 0 }),
            cv: Condvar::new(),
            max_steps,
        })
    }
    /// `running`: the thread that reached the point and can continue; `exclude`: a thread that just reported it cannot proceed
    fn decide(&self, g: &mut Inner, running: Option<usize>, point: u32, exclude: Option<usize>) {
        PROGRESS.fetch_add(1, Ordering::Relaxed);
        let mut enabled: Vec<usize> = vec![];
        if let Some(t) = running {
            enabled.push(t);
        }
        // threads that have not (yet) reported being stuck come first
        for pass in 0..2 {
            for t in 0..g.finished.len() {
                if g.finished[t] || Some(t) == running || Some(t) == exclude {
                    continue;
                }
                if g.blocked.contains(&t) == (pass == 1) {
                    enabled.push(t);
                }
            }
        }
        if enabled.is_empty() {
            g.current = None;
            return;
        }
        let k = g.trace.len();
        let chosen = if k < g.prefix.len() {
            let c = g.prefix[k];
            if c >= enabled.len() {
                g.abort = Some(format!("replay divergence: prefix choice {} at point {} but only {} threads enabled", c, k, enabled.len()));
                0
            } else {
                c
            }
        } else {
            0
        };
        if g.trace.len() >= self.max_steps {
            g.abort = Some(format!("horizon of {} scheduling steps exceeded", self.max_steps));
        }
        g.current = Some(enabled[chosen]);
        g.trace.push(Choice { enabled, chosen, running, point });
    }
    fn wait_turn<'a>(&'a self, mut g: std::sync::MutexGuard<'a, Inner>, tid: usize) {
        while g.current != Some(tid) && g.abort.is_none() {
            g = self.cv.wait(g).unwrap();
        }
    }
    pub fn start(&self, tid: usize) {
        let mut g = self.inner.lock().unwrap();
        g.arrived += 1;
        if g.arrived == g.n0 {
            self.decide(&mut g, None, 0, None);
            self.cv.notify_all();
        }
        self.wait_turn(g, tid);
    }
    pub fn yield_point(&self, tid: usize, point: u32) {
        let mut g = self.inner.lock().unwrap();
        if g.abort.is_some() {
            return;
        }
        assert_eq!(g.current, Some(tid), "scheduler: a thread ran without holding the baton");
        g.blocked.clear();
        if point >= 100 {
            g.sync_points += 1;
        }
        self.decide(&mut g, Some(tid), point, None);
        if g.current != Some(tid) || g.abort.is_some() {
            self.cv.notify_all();
        }
        self.wait_turn(g, tid);
    }
    pub fn finish(&self, tid: usize) {
        let mut g = self.inner.lock().unwrap();
        g.finished[tid] = true;
        g.blocked.clear();
        if g.abort.is_some() {
            self.cv.notify_all();
            return;
        }
        self.decide(&mut g, None, u32::MAX, None);
        self.cv.notify_all();
    }
    pub fn result(&self) -> (Vec<Choice>, Option<String>, u64, usize) {
        let g = self.inner.lock().unwrap();
        (g.trace.clone(), g.abort.clone(), g.sync_points, g.threads_created)
    }
}

pub struct Rt(pub Arc<Sched>);
impl Runtime for Rt {
    fn point(&self, tid: usize, id: u32) {
        self.0.yield_point(tid, id)
    }
    fn blocked(&self, tid: usize, id: u32) -> bool {
        let s = &self.0;
        let mut g = s.inner.lock().unwrap();
        if g.abort.is_some() {
            return false;
        }
        assert_eq!(g.current, Some(tid), "scheduler: a thread ran without holding the baton");
        g.blocked.insert(tid);
        let live: Vec<usize> = (0..g.finished.len()).filter(|t| !g.finished[*t]).collect();
        if live.iter().all(|t| g.blocked.contains(t)) {
            // every live thread has re-checked its condition since the last progress event and is still stuck
            let choices: Vec<String> = g.trace.iter().map(|c| c.chosen.to_string()).collect();
            let ctx = CONTEXT.lock().map(|c| c.clone()).unwrap_or_default();
            println!(
                "DEADLOCK deadlock: all {} live threads wait for each other (last wait at synchronisation point id {}) in '{}'; choices so far: {}",
                live.len(),
                id,
                ctx,
                choices.join(",")
            );
            use std::io::Write;
            let _ = std::io::stdout().flush();
            std::process::exit(3);
        }
        s.decide(&mut g, None, id, Some(tid));
        s.cv.notify_all();
        s.wait_turn(g, tid);
        true
    }
    fn spawn(&self, _parent: usize) -> usize {
        let mut g = self.0.inner.lock().unwrap();
        let tid = g.finished.len();
        g.finished.push(false);
        g.blocked.clear();
        g.threads_created += 1;
        tid
    }
    fn child_start(&self, tid: usize) {
        let g = self.0.inner.lock().unwrap();
        self.0.wait_turn(g, tid);
    }
    fn child_finish(&self, tid: usize) {
        self.0.finish(tid)
    }
    fn is_finished(&self, tid: usize) -> bool {
        self.0.inner.lock().unwrap().finished[tid]
    }
}

pub struct RunOut {
    pub trace: Vec<Choice>,
    pub outputs: Vec<Vec<u64>>,
    pub abort: Option<String>,
    pub sync_points: u64,
    pub threads_created: usize,
}

pub struct Harness<'a> {
    pub name: String,
    pub n: usize,
    /// body(tid, yield) -> one observation per operation
    pub body: &'a (dyn Fn(usize, &dyn Fn()) -> Vec<u64> + Sync),
}

pub fn run_once(h: &Harness, prefix: &[usize], max_steps: usize) -> RunOut {
    let sched = Sched::new(h.n, prefix.to_vec(), max_steps);
    let outputs: Vec<Vec<u64>> = std::thread::scope(|s| {
        let mut hs = vec![];
        for tid in 0..h.n {
            let sched = sched.clone();
            let body = h.body;
            hs.push(s.spawn(move || {
                let rt: Arc<dyn Runtime> = Arc::new(Rt(sched.clone()));
                set_runtime(Some((rt, tid)));
                sched.start(tid);
                let s3 = sched.clone();
                let y = move || s3.yield_point(tid, 1);
                let r = std::panic::catch_unwind(std::panic::AssertUnwindSafe(|| body(tid, &y)));
                set_runtime(None);
                sched.finish(tid);
                match r {
                    Ok(v) => v,
                    Err(_) => vec![u64::MAX],
                }
            }));
        }
        hs.into_iter().map(|h| h.join().unwrap_or_else(|_| vec![u64::MAX - 1])).collect()
    });
    let (trace, abort, sync_points, threads_created) = sched.result();
    RunOut { trace, outputs, abort, sync_points, threads_created }
}

#[derive(Default)]
pub struct ExploreStats {
    pub schedules: u64,
    pub choice_points: u64,
    pub max_preemptions_used: usize,
    pub distinct_outcomes: usize,
    pub sync_points_max: u64,
    pub threads_created_max: usize,
    pub violation: Option<(Vec<usize>, String)>,
    pub machinery: Option<String>,
    pub capped: Option<String>,
}

fn preemptions(trace: &[Choice], upto: usize) -> usize {
    trace[..upto].iter().filter(|c| c.running.is_some() && c.chosen != 0).count()
}

pub struct Limits {
    pub bound: usize,
    pub max_schedules: u64,
    pub max_seconds: f64,
    /// choice points beyond this index are not branched on
    pub branch_cap: usize,
    pub max_steps: usize,
}

pub fn explore(h: &Harness, lim: &Limits, check: &dyn Fn(&RunOut) -> Result<(), String>) -> ExploreStats {
    let t0 = std::time::Instant::now();
    let mut st = ExploreStats::default();
    let mut outcomes: std::collections::HashSet<Vec<Vec<u64>>> = Default::default();
    let mut stack: Vec<Vec<usize>> = vec![vec![]];
    let mut first: Option<RunOut> = None;
    while let Some(prefix) = stack.pop() {
        if st.schedules >= lim.max_schedules {
            st.capped = Some(format!("schedule cap {} reached", lim.max_schedules));
            break;
        }
        if t0.elapsed().as_secs_f64() > lim.max_seconds {
            st.capped = Some(format!("time cap {} s reached after {} schedules", lim.max_seconds, st.schedules));
            break;
        }
        *CONTEXT.lock().unwrap() = format!("{} (schedule prefix {:?})", h.name, prefix);
        let x = run_once(h, &prefix, lim.max_steps);
        st.schedules += 1;
        st.choice_points += x.trace.len() as u64;
        st.sync_points_max = st.sync_points_max.max(x.sync_points);
        st.threads_created_max = st.threads_created_max.max(x.threads_created);
        if let Some(a) = &x.abort {
            if a.starts_with("horizon") {
                // too many synchronisation operations to enumerate: what was explored so far stands, the rest is reported as capped
                st.capped = Some(format!("{} in schedule #{}", a, st.schedules));
                // the observations of a run that finished free-running are still checked
                if let Err(e) = check(&x) {
                    st.violation = Some((x.trace.iter().map(|c| c.chosen).collect(), format!("{} (after the horizon the threads ran freely)", e)));
                }
                break;
            }
            st.machinery = Some(format!("{}: {}", h.name, a));
            return st;
        }
        for (i, c) in prefix.iter().enumerate() {
            if x.trace.get(i).map(|t| t.chosen) != Some(*c) {
                st.machinery = Some(format!("{}: divergence while replaying a schedule prefix at choice {}", h.name, i));
                return st;
            }
        }
        st.max_preemptions_used = st.max_preemptions_used.max(preemptions(&x.trace, x.trace.len()));
        outcomes.insert(x.outputs.clone());
        if let Err(e) = check(&x) {
            let choices: Vec<usize> = x.trace.iter().map(|c| c.chosen).collect();
            st.violation = Some((choices, e));
            st.distinct_outcomes = outcomes.len();
            return st;
        }
        if x.trace.len() > lim.branch_cap && st.capped.is_none() {
            st.capped = Some(format!("a schedule has {} choice points; only the first {} are branched on", x.trace.len(), lim.branch_cap));
        }
        for i in prefix.len()..x.trace.len().min(lim.branch_cap) {
            let p = &x.trace[i];
            let before = preemptions(&x.trace, i);
            for alt in 1..p.enabled.len() {
                let cost = before + if p.running.is_some() { 1 } else { 0 };
                if cost > lim.bound {
                    continue;
                }
                let mut np: Vec<usize> = x.trace[..i].iter().map(|c| c.chosen).collect();
                np.push(alt);
                stack.push(np);
            }
        }
        if first.is_none() {
            first = Some(x);
        }
    }
    st.distinct_outcomes = outcomes.len();
    if let Some(f) = first {
        let choices: Vec<usize> = f.trace.iter().map(|c| c.chosen).collect();
        let a = run_once(h, &choices, lim.max_steps);
        let b = run_once(h, &choices, lim.max_steps);
        if a.trace != b.trace || a.outputs != b.outputs || a.trace != f.trace {
            st.machinery = Some(format!("{}: replaying one schedule twice gave different observations (uncontrolled nondeterminism)", h.name));
        }
    }
    st
}
