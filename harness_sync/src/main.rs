//! ppsync — synchronisation-level schedule exploration of the INSTRUMENTED copy of the subject (C20).
//!
//! usage: ppsync <quick|thorough> [--replay <harness-index> <c0,c1,...>]
//! Prints JSON lines: {"kind":"harness",...} per harness, {"kind":"violation",...} for the first violation, {"kind":"done",...}.
//! exit 0 = nothing found, 1/3 = violation (3: deadlock, reported from inside the scheduler), 2 = machinery.
extern crate ff;
extern crate pairing_plus;
extern crate rand_core;
extern crate rand_xorshift;
extern crate sha2;
extern crate sha3;

mod sched2;

use ff::{Field, PrimeField, SqrtField};
use pairing_plus::bls12_381::{Bls12, Fq, Fq12, Fq2, Fr, FrRepr, G1Affine, G1Compressed, G2Affine, G2Compressed, G2Prepared, G2Uncompressed, G1, G2};
use pairing_plus::hash_to_curve::HashToCurve;
use pairing_plus::hash_to_field::{hash_to_field, ExpandMsgXmd, ExpandMsgXof};
use pairing_plus::map_to_curve::MapToCurve;
use pairing_plus::serdes::SerDes;
use pairing_plus::{CurveAffine, CurveProjective, EncodedPoint, Engine, Wnaf};
use sched2::*;
use std::io::Write;
use std::sync::atomic::Ordering;
use std::sync::OnceLock;

fn fnv(h: &mut u64, b: &[u8]) {
    for x in b {
        *h = (*h ^ *x as u64).wrapping_mul(0x100000001b3);
    }
}
struct Obs(u64);
impl Obs {
    fn new() -> Obs {
        Obs(0xcbf29ce484222325)
    }
    fn bytes(&mut self, b: &[u8]) {
        fnv(&mut self.0, b)
    }
    fn raw<T: Copy>(&mut self, x: &T) {
        // in-memory representation (Montgomery limbs, Jacobian coordinates as they are)
        let p = x as *const T as *const u8;
        let s = unsafe { std::slice::from_raw_parts(p, std::mem::size_of::<T>()) };
        fnv(&mut self.0, s)
    }
    fn g1(&mut self, p: &G1) {
        let (x, y, z) = p.as_tuple();
        self.raw(x);
        self.raw(y);
        self.raw(z);
    }
    fn g2(&mut self, p: &G2) {
        let (x, y, z) = p.as_tuple();
        self.raw(&x.c0);
        self.raw(&x.c1);
        self.raw(&y.c0);
        self.raw(&y.c1);
        self.raw(&z.c0);
        self.raw(&z.c1);
    }
    fn fq12(&mut self, f: &Fq12) {
        for h in [&f.c0, &f.c1].iter() {
            for c in [&h.c0, &h.c1, &h.c2].iter() {
                self.raw(&c.c0);
                self.raw(&c.c1);
            }
        }
    }
}

/// fixed scalars: k(n) = n * odd 256-bit constant, reduced by clearing the top bits
fn k(n: u64) -> FrRepr {
    let c: [u64; 4] = [0xf86c6a11d0c18e95, 0x1082276bf3a27251, 0xf39cc0605cedc834, 0x1e3779b97f4a7c15];
    let mut out = [0u64; 4];
    let mut carry = 0u128;
    for i in 0..4 {
        let t = c[i] as u128 * n as u128 + carry;
        out[i] = t as u64;
        carry = t >> 64;
    }
    out[3] &= 0x3fff_ffff_ffff_ffff;
    FrRepr(out)
}
fn fq_small(n: u64) -> Fq {
    Fq::from_repr(pairing_plus::bls12_381::FqRepr([n, 0, 0, 0, 0, 0])).unwrap()
}

const MSM_N: usize = 160;
struct Shared {
    msm_pts: Vec<G1Affine>,
    msm_pre: Vec<G1Affine>,
}
fn shared() -> &'static Shared {
    static S: OnceLock<Shared> = OnceLock::new();
    S.get_or_init(|| {
        let mut msm_pts = vec![];
        let mut p = G1::one();
        for j in 0..MSM_N {
            msm_pts.push(p.into_affine());
            p.double();
            if j % 3 == 0 {
                p.add_assign_mixed(&G1Affine::one());
            }
        }
        let mut msm_pre = vec![G1Affine::zero(); 256 * MSM_N];
        for (j, pt) in msm_pts.iter().enumerate() {
            pt.precomp_256(&mut msm_pre[j * 256..(j + 1) * 256]);
        }
        Shared { msm_pts, msm_pre }
    })
}

const DST1: &[u8] = b"QUUX-V01-CS02-with-BLS12381G1_XMD:SHA-256_SSWU_RO_";
const DST2: &[u8] = b"QUUX-V01-CS02-with-BLS12381G2_XMD:SHA-256_SSWU_RO_";

/// families of operations; every family has the variants 0 ("a"), 1 ("b": unrelated operands) and 2 ("a'": operands that share
/// a partial key with a - the negated point, the negated field element, the same message under another tag)
const FAMILIES: [&str; 20] = [
    "G1 mul_assign",
    "G2 mul_assign",
    "G1 wNAF (context reused)",
    "G1 precomp_256 + mul_precomp_256",
    "G1 sum_of_products (8 terms, repeated bases) + pippinger",
    "G1 sum_of_products_precomp_256 (160 terms, shared table)",
    "G2Prepared::from_affine + Miller loop",
    "pairing",
    "final_exponentiation",
    "point encodings: G1 compressed, G2 uncompressed/compressed, checked decoding",
    "hash_to_curve G1 (XMD-SHA-256)",
    "hash_to_curve G2 (XMD-SHA-256), encode_to_curve G2 (XOF-SHAKE128)",
    "map_to_curve G2 (SSWU, isogeny, cofactor clearing)",
    "map_to_curve / map2_to_curve G1",
    "SerDes: G1Affine, G2, Fr, Fq12",
    "Fq sqrt, Fq2 sqrt, Fq12 inverse and Frobenius",
    "batch_normalization G1/G2",
    "hash_to_field Fr (XMD-SHA-512) / Fq2 (XOF-SHAKE256)",
    "G1 sum_of_products (160 terms) + G2 sum_of_products (130 terms)",
    "pairing_multi_product (17 pairs, repeated G2 elements)",
];

fn variant_seed(v: usize) -> u64 {
    [11u64, 29, 11][v]
}

fn run_op(fam: usize, v: usize) -> u64 {
    let mut o = Obs::new();
    let s = variant_seed(v);
    let neg = v == 2;
    match fam {
        0 => {
            let mut a = G1::one();
            if neg {
                a.negate();
            }
            a.mul_assign(k(s));
            o.g1(&a);
        }
        1 => {
            let mut a = G2::one();
            if neg {
                a.negate();
            }
            a.mul_assign(k(s + 1));
            o.g2(&a);
        }
        2 => {
            let mut w = Wnaf::new();
            let mut b = G1::one();
            if neg {
                b.negate();
            }
            let r1: G1 = w.base(b, 3).scalar(k(s + 2));
            o.g1(&r1);
            let r2: G1 = w.base(b, 1).scalar(k(s + 3));
            o.g1(&r2);
            let r3: G1 = w.scalar(k(s + 4)).base(r1);
            o.g1(&r3);
        }
        3 => {
            let mut b = G1::one();
            b.mul_assign(k(s + 5));
            if neg {
                b.negate();
            }
            let a = b.into_affine();
            let mut pre = vec![G1Affine::zero(); 256];
            a.precomp_256(&mut pre);
            o.g1(&a.mul_precomp_256(k(s + 6), &pre));
            let mut pre3 = vec![G1Affine::zero(); 3];
            a.precomp_3(&mut pre3);
            o.g1(&a.mul_precomp_3(k(s + 7), &pre3));
        }
        4 => {
            let mut pts = vec![];
            let mut p = G1::one();
            if neg {
                p.negate();
            }
            let start = p;
            for j in 0..8 {
                pts.push(p.into_affine());
                // the same base occurs more than once (positions 0, 3 and 6)
                if j == 2 || j == 5 {
                    p = start;
                } else {
                    p.double();
                }
            }
            let ks: Vec<[u64; 4]> = (0..8).map(|j| k(s + 10 + j).0).collect();
            let refs: Vec<&[u64; 4]> = ks.iter().collect();
            o.g1(&G1Affine::sum_of_products(&pts, &refs));
            o.g1(&G1Affine::sum_of_products_pippinger(&pts, &refs, 4));
        }
        5 => {
            let sh = shared();
            let ks: Vec<[u64; 4]> = (0..MSM_N as u64).map(|j| k(if neg { s + 100 + (j ^ 1) } else { s + 100 + j }).0).collect();
            let refs: Vec<&[u64; 4]> = ks.iter().collect();
            o.g1(&G1Affine::sum_of_products_precomp_256(&sh.msm_pts, &refs, &sh.msm_pre));
        }
        6 => {
            let mut q = G2::one();
            q.mul_assign(k(s + 20));
            let mut qa = q.into_affine();
            if neg {
                qa.negate();
            }
            let prep = G2Prepared::from_affine(qa);
            let f = Bls12::miller_loop([(&G1Affine::one().prepare(), &prep)].iter());
            o.fq12(&f);
        }
        7 => {
            let mut p = G1::one();
            p.mul_assign(k(s + 21));
            let mut q = G2::one();
            q.mul_assign(k(s + 22));
            if neg {
                q.negate();
            }
            o.fq12(&Bls12::pairing(p.into_affine(), q.into_affine()));
            let mut p2 = p;
            p2.double();
            o.fq12(&Bls12::pairing_product(p.into_affine(), q.into_affine(), p2.into_affine(), G2Affine::one()));
        }
        8 => {
            let mut f = Fq12::one();
            f.c0.c0.c0 = fq_small(s);
            f.c1.c1.c1 = fq_small(s + 2);
            f.c0.c2.c0 = fq_small(7);
            if neg {
                f.conjugate();
            }
            o.fq12(&Bls12::final_exponentiation(&f).unwrap());
        }
        9 => {
            let mut p = G1::one();
            p.mul_assign(k(s + 30));
            let mut q = G2::one();
            q.mul_assign(k(s + 31));
            if neg {
                p.negate();
                q.negate();
            }
            let c = G1Compressed::from_affine(p.into_affine());
            o.bytes(c.as_ref());
            o.g1(&c.into_affine().unwrap().into_projective());
            let u = G2Uncompressed::from_affine(q.into_affine());
            o.bytes(u.as_ref());
            o.g2(&u.into_affine().unwrap().into_projective());
            let c2 = G2Compressed::from_affine(q.into_affine());
            o.bytes(c2.as_ref());
            o.g2(&c2.into_affine().unwrap().into_projective());
        }
        10 => {
            let msg: &[u8] = if v == 1 { b"another message" } else { b"determinism" };
            let dst: &[u8] = if neg { DST2 } else { DST1 };
            o.g1(&<G1 as HashToCurve<ExpandMsgXmd<sha2::Sha256>>>::hash_to_curve(msg, dst));
        }
        11 => {
            let msg: &[u8] = if v == 1 { b"another message" } else { b"determinism" };
            let dst: &[u8] = if neg { DST1 } else { DST2 };
            o.g2(&<G2 as HashToCurve<ExpandMsgXmd<sha2::Sha256>>>::hash_to_curve(msg, dst));
            o.g2(&<G2 as HashToCurve<ExpandMsgXof<sha3::Shake128>>>::encode_to_curve(msg, dst));
        }
        12 => {
            let mut u = Fq2 { c0: fq_small(s), c1: fq_small(s + 1) };
            if neg {
                u.negate();
            }
            o.g2(&<G2 as MapToCurve<G2>>::map_to_curve(&u));
        }
        13 => {
            let mut u = fq_small(s);
            if neg {
                u.negate();
            }
            o.g1(&<G1 as MapToCurve<G1>>::map_to_curve(&u));
            o.g1(&<G1 as MapToCurve<G1>>::map2_to_curve(&u, &fq_small(3)));
        }
        14 => {
            let mut p = G1::one();
            p.mul_assign(k(s + 40));
            if neg {
                p.negate();
            }
            let pa = p.into_affine();
            for &comp in [true, false].iter() {
                let mut buf = vec![];
                pa.serialize(&mut buf, comp).unwrap();
                o.bytes(&buf);
                let back = G1Affine::deserialize(&mut &buf[..], comp).unwrap();
                o.g1(&back.into_projective());
            }
            let mut q = G2::one();
            q.mul_assign(k(s + 41));
            let mut buf = vec![];
            q.serialize(&mut buf, true).unwrap();
            o.g2(&G2::deserialize(&mut &buf[..], true).unwrap());
            let sc = Fr::from_repr(k(s + 42)).unwrap_or_else(|_| Fr::one());
            let mut b2 = vec![];
            sc.serialize(&mut b2, true).unwrap();
            o.bytes(&b2);
            let mut f = Fq12::one();
            f.c1.c0.c1 = fq_small(s);
            let mut b3 = vec![];
            f.serialize(&mut b3, false).unwrap();
            o.fq12(&Fq12::deserialize(&mut &b3[..], false).unwrap());
        }
        15 => {
            let mut x = fq_small(s);
            x.square();
            if neg {
                // same square, other root as the starting point
                let mut y = fq_small(s);
                y.negate();
                y.square();
                x = y;
            }
            o.raw(&x.sqrt().unwrap());
            let mut y = Fq2 { c0: fq_small(s), c1: fq_small(s + 3) };
            if neg {
                y.negate();
            }
            y.square();
            let r = y.sqrt().unwrap();
            o.raw(&r.c0);
            o.raw(&r.c1);
            let mut f = Fq12::one();
            f.c0.c1.c0 = fq_small(s);
            f.c1.c2.c1 = fq_small(5);
            o.fq12(&f.inverse().unwrap());
            f.frobenius_map(if neg { 7 } else { 1 });
            o.fq12(&f);
        }
        16 => {
            let mut v1: Vec<G1> = vec![];
            let mut p = G1::one();
            p.mul_assign(k(s + 50));
            if neg {
                p.negate();
            }
            for j in 0..5 {
                v1.push(p);
                p.double();
                if j == 2 {
                    v1.push(G1::zero());
                }
            }
            G1::batch_normalization(&mut v1);
            for x in &v1 {
                o.g1(x);
            }
            let mut v2: Vec<G2> = vec![];
            let mut q = G2::one();
            q.mul_assign(k(s + 51));
            for _ in 0..3 {
                v2.push(q);
                q.double();
            }
            G2::batch_normalization(&mut v2);
            for x in &v2 {
                o.g2(x);
            }
        }
        17 => {
            let msg: &[u8] = if v == 1 { b"another message" } else { b"determinism" };
            let dst: &[u8] = if neg { DST2 } else { DST1 };
            // XMD over SHA-512 here (families 10 and 11 use SHA-256): a process-wide value fixed by whichever hash comes first
            // shows when this family runs after one of those
            for x in hash_to_field::<Fr, ExpandMsgXmd<sha2::Sha512>>(msg, dst, 3) {
                o.raw(&x);
            }
            for x in hash_to_field::<Fq2, ExpandMsgXof<sha3::Shake256>>(msg, dst, 2) {
                o.raw(&x.c0);
                o.raw(&x.c1);
            }
        }
        19 => {
            // a product long enough for any internal batching / fan-out of the preparation
            let mut ps = vec![];
            let mut qs = vec![];
            let mut p = G1::one();
            p.mul_assign(k(s + 60));
            let mut q = G2::one();
            q.mul_assign(k(s + 61));
            if neg {
                q.negate();
            }
            for j in 0..17 {
                ps.push(p.into_affine());
                qs.push(q.into_affine());
                p.double();
                if j % 3 != 2 {
                    q.double();
                }
            }
            o.fq12(&Bls12::pairing_multi_product(&ps, &qs));
        }
        _ => {
            let sh = shared();
            let ks: Vec<[u64; 4]> = (0..MSM_N as u64).map(|j| k(if neg { s + 300 + (j ^ 1) } else { s + 300 + j }).0).collect();
            let refs: Vec<&[u64; 4]> = ks.iter().collect();
            o.g1(&G1Affine::sum_of_products(&sh.msm_pts, &refs));
            let mut q = G2::one();
            let mut pts2 = vec![];
            for _ in 0..130 {
                pts2.push(q.into_affine());
                q.double();
            }
            o.g2(&G2Affine::sum_of_products(&pts2, &refs[..130]));
        }
    }
    o.0
}

/// a harness: per thread a list of (family, variant)
struct Prog {
    name: String,
    threads: Vec<Vec<(usize, usize)>>,
    bound: usize,
}

fn programs(thorough: bool) -> Vec<Prog> {
    let mut v = vec![];
    for f in 0..FAMILIES.len() {
        // cache-collision shape: a repeated on one thread while the other thread runs b and then a
        v.push(Prog { name: format!("{}: T0 = [a, a], T1 = [b, a]", FAMILIES[f]), threads: vec![vec![(f, 0), (f, 0)], vec![(f, 1), (f, 0)]], bound: 2 });
        // related operands (negation / same message, other tag)
        v.push(Prog { name: format!("{}: T0 = [a, a'], T1 = [a', a]", FAMILIES[f]), threads: vec![vec![(f, 0), (f, 2)], vec![(f, 2), (f, 0)]], bound: 2 });
        if thorough {
            v.push(Prog { name: format!("{}: T0 = [a, a], T1 = [b, a], T2 = [a', b]", FAMILIES[f]), threads: vec![vec![(f, 0), (f, 0)], vec![(f, 1), (f, 0)], vec![(f, 2), (f, 1)]], bound: 2 });
            v.push(Prog { name: format!("{}: T0 = [a, a, b], T1 = [b, a, a] (3 preemptions)", FAMILIES[f]), threads: vec![vec![(f, 0), (f, 0), (f, 1)], vec![(f, 1), (f, 0), (f, 0)]], bound: 3 });
        }
    }
    // operations of different families that share stages (hash -> map -> cofactor clearing; prepare -> pairing; tables)
    let cross: Vec<(usize, usize)> = vec![(11, 12), (10, 13), (6, 7), (7, 8), (3, 5), (9, 14), (10, 17), (0, 2), (4, 18), (1, 12)];
    for (f, g) in cross {
        v.push(Prog { name: format!("{} || {}", FAMILIES[f], FAMILIES[g]), threads: vec![vec![(f, 0), (g, 0)], vec![(g, 1), (f, 0)]], bound: 2 });
    }
    v
}


fn uses_shared_tables(p: &Prog) -> bool {
    p.threads.iter().any(|t| t.iter().any(|&(f, _)| f == 5 || f == 18))
}

fn body_of<'a>(p: &'a Prog) -> impl Fn(usize, &dyn Fn()) -> Vec<u64> + Sync + 'a {
    move |tid: usize, y: &dyn Fn()| -> Vec<u64> {
        let mut out = vec![];
        for (j, &(f, v)) in p.threads[tid].iter().enumerate() {
            if j > 0 {
                y();
            }
            out.push(run_op(f, v));
        }
        out
    }
}

fn watchdog() {
    std::thread::spawn(|| {
        let mut last = PROGRESS.load(Ordering::Relaxed);
        let mut idle = 0;
        loop {
            std::thread::sleep(std::time::Duration::from_secs(5));
            let now = PROGRESS.load(Ordering::Relaxed);
            if now == last {
                idle += 1;
                if idle >= 24 {
                    println!("STUCK no scheduling step for 120 s: a thread blocks outside the shim (uncontrolled primitive)");
                    let _ = std::io::stdout().flush();
                    std::process::exit(2);
                }
            } else {
                idle = 0;
                last = now;
            }
        }
    });
}

/// child: ONE schedule in a fresh process (cold caches, nothing initialised), printed in a line format the parent parses
fn child_run(progs: &[Prog], idx: usize, prefix: Vec<usize>) {
    let p = &progs[idx];
    if uses_shared_tables(p) {
        let _ = shared();
    }
    watchdog();
    let body = body_of(p);
    let h = Harness { name: p.name.clone(), n: p.threads.len(), body: &body };
    *CONTEXT.lock().unwrap() = p.name.clone();
    let x = run_once(&h, &prefix, 2_000_000);
    println!("RUN sync={} created={} abort={}", x.sync_points, x.threads_created, x.abort.clone().unwrap_or_else(|| "-".to_string()).replace('\n', " "));
    println!("TRACE {}", x.trace.iter().map(|c| format!("{}:{}:{}:{}", c.enabled.len(), c.chosen, if c.running.is_some() { 1 } else { 0 }, c.point)).collect::<Vec<_>>().join(" "));
    println!("OUT {}", x.outputs.iter().map(|o| o.iter().map(|v| v.to_string()).collect::<Vec<_>>().join(",")).collect::<Vec<_>>().join(";"));
    let _ = std::io::stdout().flush();
    std::process::exit(0);
}

#[derive(Clone, Default)]
struct ChildOut {
    /// (enabled, chosen, running, point)
    trace: Vec<(usize, usize, bool, u32)>,
    outputs: Vec<Vec<u64>>,
    abort: Option<String>,
    sync_points: u64,
    created: usize,
    deadlock: Option<String>,
    stuck: Option<String>,
    broken: Option<String>,
}

fn run_child(tier: &str, idx: usize, prefix: &[usize]) -> ChildOut {
    let exe = std::env::current_exe().expect("current_exe");
    let pre = if prefix.is_empty() { "-".to_string() } else { prefix.iter().map(|c| c.to_string()).collect::<Vec<_>>().join(",") };
    let o = match std::process::Command::new(exe).arg("__run").arg(tier).arg(idx.to_string()).arg(pre).output() {
        Ok(o) => o,
        Err(e) => return ChildOut { broken: Some(format!("cannot start the child process: {}", e)), ..Default::default() },
    };
    let text = String::from_utf8_lossy(&o.stdout).to_string();
    let mut c = ChildOut::default();
    let mut seen_run = false;
    for line in text.lines() {
        if let Some(r) = line.strip_prefix("RUN ") {
            seen_run = true;
            for kv in r.splitn(3, ' ') {
                if let Some(v) = kv.strip_prefix("sync=") {
                    c.sync_points = v.parse().unwrap_or(0);
                } else if let Some(v) = kv.strip_prefix("created=") {
                    c.created = v.parse().unwrap_or(0);
                } else if let Some(v) = kv.strip_prefix("abort=") {
                    if v != "-" {
                        c.abort = Some(v.to_string());
                    }
                }
            }
        } else if let Some(r) = line.strip_prefix("TRACE") {
            for w in r.split_whitespace() {
                let f: Vec<&str> = w.split(':').collect();
                if f.len() == 4 {
                    c.trace.push((f[0].parse().unwrap_or(0), f[1].parse().unwrap_or(0), f[2] == "1", f[3].parse().unwrap_or(0)));
                }
            }
        } else if let Some(r) = line.strip_prefix("OUT ") {
            c.outputs = r.split(';').map(|t| t.split(',').filter(|x| !x.is_empty()).map(|x| x.parse().unwrap_or(0)).collect()).collect();
        } else if let Some(r) = line.strip_prefix("DEADLOCK ") {
            c.deadlock = Some(r.to_string());
        } else if let Some(r) = line.strip_prefix("STUCK ") {
            c.stuck = Some(r.to_string());
        }
    }
    if !seen_run && c.deadlock.is_none() && c.stuck.is_none() {
        let err = String::from_utf8_lossy(&o.stderr).to_string();
        c.broken = Some(format!("child ended without a result (exit {:?}); stderr tail: {}", o.status.code(), err.lines().rev().take(3).collect::<Vec<_>>().join(" | ")));
    }
    c
}

fn par_map<T: Send, F: Fn(usize) -> T + Sync>(n: usize, workers: usize, f: F) -> Vec<T> {
    let next = std::sync::atomic::AtomicUsize::new(0);
    let slots: Vec<std::sync::Mutex<Option<T>>> = (0..n).map(|_| std::sync::Mutex::new(None)).collect();
    std::thread::scope(|s| {
        for _ in 0..workers.min(n.max(1)) {
            s.spawn(|| loop {
                let i = next.fetch_add(1, Ordering::SeqCst);
                if i >= n {
                    break;
                }
                let v = f(i);
                *slots[i].lock().unwrap() = Some(v);
            });
        }
    });
    slots.into_iter().map(|m| m.into_inner().unwrap().expect("par_map slot")).collect()
}

fn preempt(trace: &[(usize, usize, bool, u32)], upto: usize) -> usize {
    trace[..upto].iter().filter(|c| c.2 && c.1 != 0).count()
}

fn main() {
    let args: Vec<String> = std::env::args().collect();
    let mode = args.get(1).cloned().unwrap_or_else(|| "quick".to_string());
    if mode == "__lone" {
        let f: usize = args[2].parse().unwrap();
        let v: usize = args[3].parse().unwrap();
        if f == 5 || f == 18 {
            let _ = shared();
        }
        println!("LONE {}", run_op(f, v));
        return;
    }
    if mode == "__run" {
        let thorough = args[2] == "thorough";
        let progs = programs(thorough);
        let idx: usize = args[3].parse().unwrap();
        let prefix: Vec<usize> = if args[4] == "-" { vec![] } else { args[4].split(',').map(|x| x.parse().unwrap()).collect() };
        return child_run(&progs, idx, prefix);
    }
    let thorough = mode == "thorough";
    let tier = if thorough { "thorough" } else { "quick" };
    let workers = std::thread::available_parallelism().map(|n| n.get()).unwrap_or(4).min(16);
    let progs = programs(thorough);
    let t0 = std::time::Instant::now();
    // lone evaluations: every operation instance as the first and only library use of a fresh process
    let exe = std::env::current_exe().expect("current_exe");
    let nf = FAMILIES.len();
    let lone = |i: usize| -> Option<u64> {
        let o = std::process::Command::new(&exe).arg("__lone").arg((i / 3).to_string()).arg((i % 3).to_string()).output().ok()?;
        String::from_utf8_lossy(&o.stdout).lines().find_map(|l| l.strip_prefix("LONE ").and_then(|v| v.trim().parse().ok()))
    };
    let exp_flat = par_map(nf * 3, workers, &lone);
    if exp_flat.iter().any(|e| e.is_none()) {
        let bad: Vec<String> = exp_flat.iter().enumerate().filter(|(_, e)| e.is_none()).map(|(i, _)| format!("{} ({})", FAMILIES[i / 3], ["a", "b", "a'"][i % 3])).collect();
        println!("{{\"kind\":\"machinery\",\"message\":{}}}", json_str(&format!("lone evaluation failed for: {}", bad.join("; "))));
        std::process::exit(2);
    }
    // and a second time: a lone evaluation must be reproducible before it can serve as the expected value
    let exp2 = par_map(nf * 3, workers, &lone);
    let mut code = 0;
    for i in 0..nf * 3 {
        if exp_flat[i] != exp2[i] {
            println!(
                "{{\"kind\":\"violation\",\"index\":-1,\"harness\":\"lone evaluations in two fresh processes\",\"message\":{},\"schedule\":[]}}",
                json_str(&format!("{} (operand set {}) returns different bits in two fresh processes", FAMILIES[i / 3], ["a", "b", "a'"][i % 3]))
            );
            code = 1;
        }
    }
    let exp: Vec<[u64; 3]> = (0..nf).map(|f| [exp_flat[3 * f].unwrap(), exp_flat[3 * f + 1].unwrap(), exp_flat[3 * f + 2].unwrap()]).collect();
    // --replay <index> <choices>: one schedule, in a fresh process
    if args.get(2).map(|s| s == "--replay").unwrap_or(false) {
        let idx: usize = args[3].parse().expect("harness index");
        let choices: Vec<usize> = args.get(4).map(|s| s.split(',').filter(|x| !x.is_empty()).map(|x| x.parse().unwrap()).collect()).unwrap_or_default();
        let p = &progs[idx];
        let x = run_child(tier, idx, &choices);
        let mut bad = vec![];
        if let Some(d) = &x.deadlock {
            bad.push(d.clone());
        }
        for (t, outs) in x.outputs.iter().enumerate() {
            for (j, &(f, v)) in p.threads[t].iter().enumerate() {
                if outs.get(j) != Some(&exp[f][v]) {
                    bad.push(format!("thread {} operation #{} ({}, operand set {})", t, j + 1, FAMILIES[f], ["a", "b", "a'"][v]));
                }
            }
        }
        println!("{{\"kind\":\"replay\",\"harness\":{},\"abort\":{},\"differs\":{}}}", json_str(&p.name), json_str(&x.abort.unwrap_or_default()), json_str(&bad.join("; ")));
        std::process::exit(if bad.is_empty() { 0 } else { 1 });
    }
    let mut total_sched = 0u64;
    let mut total_points = 0u64;
    let max_sched: u64 = if thorough { 200_000 } else { 20_000 };
    let max_secs: f64 = if thorough { 120.0 } else { 12.0 };
    let branch_cap = 3000usize;
    struct Report {
        lines: Vec<String>,
        schedules: u64,
        choice_points: u64,
        code: i32,
    }
    let first_bad = std::sync::atomic::AtomicUsize::new(usize::MAX);
    let inner_workers = 6usize;
    let explore_one = |idx: usize| -> Report {
        let p = &progs[idx];
        let mut rep = Report { lines: vec![], schedules: 0, choice_points: 0, code: 0 };
        let check = |x: &ChildOut| -> Result<(), String> {
            if let Some(d) = &x.deadlock {
                return Err(d.clone());
            }
            for (t, prog) in p.threads.iter().enumerate() {
                let outs = x.outputs.get(t).cloned().unwrap_or_default();
                if outs.len() == 1 && outs[0] >= u64::MAX - 1 && prog.len() != 1 {
                    return Err(format!("thread {} panicked under this schedule", t));
                }
                for (j, &(f, v)) in prog.iter().enumerate() {
                    if outs.get(j) != Some(&exp[f][v]) {
                        return Err(format!(
                            "thread {} operation #{} ({}, operand set {}) returned bits that differ from its lone evaluation{}",
                            t,
                            j + 1,
                            FAMILIES[f],
                            ["a", "b", "a'"][v],
                            if outs.get(j) == Some(&u64::MAX) { " (it panicked)" } else { "" }
                        ));
                    }
                }
            }
            Ok(())
        };
        let h0 = std::time::Instant::now();
        let mut schedules = 0u64;
        let mut choice_points = 0u64;
        let mut max_pre = 0usize;
        let mut sync_max = 0u64;
        let mut created_max = 0usize;
        let mut capped = String::new();
        let mut outcomes: std::collections::HashSet<Vec<Vec<u64>>> = Default::default();
        let mut violation: Option<(Vec<usize>, String)> = None;
        let mut machinery: Option<String> = None;
        // waves: every prefix of the frontier runs in its own fresh process, 16 at a time; results are consumed in order
        let mut frontier: Vec<Vec<usize>> = vec![vec![]];
        let mut first: Option<ChildOut> = None;
        while !frontier.is_empty() && violation.is_none() && machinery.is_none() {
            if first_bad.load(Ordering::SeqCst) < idx {
                capped = "stopped: a harness with a lower index already reported".to_string();
                break;
            }
            if schedules + frontier.len() as u64 > max_sched {
                capped = format!("schedule cap {} reached", max_sched);
                frontier.truncate((max_sched.saturating_sub(schedules)) as usize);
                if frontier.is_empty() {
                    break;
                }
            }
            if h0.elapsed().as_secs_f64() > max_secs {
                capped = format!("time cap {} s reached after {} schedules", max_secs, schedules);
                break;
            }
            let results = par_map(frontier.len(), inner_workers, |i| run_child(tier, idx, &frontier[i]));
            let mut next: Vec<Vec<usize>> = vec![];
            for (prefix, x) in frontier.iter().zip(results.into_iter()) {
                schedules += 1;
                choice_points += x.trace.len() as u64;
                sync_max = sync_max.max(x.sync_points);
                created_max = created_max.max(x.created);
                if let Some(b) = &x.broken {
                    machinery = Some(format!("{}: {}", p.name, b));
                    break;
                }
                if let Some(sk) = &x.stuck {
                    machinery = Some(format!("{}: {}", p.name, sk));
                    break;
                }
                if let Some(a) = &x.abort {
                    if a.starts_with("horizon") {
                        capped = format!("{} (the threads then ran freely; their observations are still checked)", a);
                        if let Err(e) = check(&x) {
                            violation = Some((x.trace.iter().map(|c| c.1).collect(), e));
                            break;
                        }
                        continue;
                    }
                    machinery = Some(format!("{}: {}", p.name, a));
                    break;
                }
                if x.deadlock.is_none() {
                    for (i, c) in prefix.iter().enumerate() {
                        if x.trace.get(i).map(|t| t.1) != Some(*c) {
                            machinery = Some(format!("{}: divergence while replaying a schedule prefix at choice {}", p.name, i));
                        }
                    }
                    if machinery.is_some() {
                        break;
                    }
                }
                max_pre = max_pre.max(preempt(&x.trace, x.trace.len()));
                outcomes.insert(x.outputs.clone());
                if let Err(e) = check(&x) {
                    violation = Some((x.trace.iter().map(|c| c.1).collect(), e));
                    break;
                }
                if x.trace.len() > branch_cap && capped.is_empty() {
                    capped = format!("a schedule has {} choice points; only the first {} are branched on", x.trace.len(), branch_cap);
                }
                for i in prefix.len()..x.trace.len().min(branch_cap) {
                    let c = &x.trace[i];
                    let before = preempt(&x.trace, i);
                    for alt in 1..c.0 {
                        let cost = before + if c.2 { 1 } else { 0 };
                        if cost > p.bound {
                            continue;
                        }
                        let mut np: Vec<usize> = x.trace[..i].iter().map(|t| t.1).collect();
                        np.push(alt);
                        next.push(np);
                    }
                }
                if first.is_none() {
                    first = Some(x);
                }
            }
            frontier = next;
        }
        // the explorer owns every choice: the default schedule replayed in two more fresh processes gives the same trace and bits
        if violation.is_none() && machinery.is_none() {
            if let Some(f) = &first {
                let choices: Vec<usize> = f.trace.iter().map(|c| c.1).collect();
                let a = run_child(tier, idx, &choices);
                let b = run_child(tier, idx, &choices);
                for r in [&a, &b].iter() {
                    if let Err(e) = check(r) {
                        violation = Some((choices.clone(), format!("{} (same schedule as an earlier passing run: the result is not a function of the schedule)", e)));
                    }
                }
                if violation.is_none() && (a.trace != b.trace || a.trace != f.trace) {
                    machinery = Some(format!("{}: replaying one schedule in fresh processes gave different traces (uncontrolled nondeterminism)", p.name));
                }
            }
        }
        rep.schedules = schedules;
        rep.choice_points = choice_points;
        rep.lines.push(format!(
            "{{\"kind\":\"harness\",\"index\":{},\"name\":{},\"threads\":{},\"preemption_bound\":{},\"schedules\":{},\"choice_points\":{},\"max_preemptions_used\":{},\"distinct_outcomes\":{},\"sync_points_in_one_schedule\":{},\"threads_created_by_subject\":{},\"capped\":{}}}",
            idx,
            json_str(&p.name),
            p.threads.len(),
            p.bound,
            schedules,
            choice_points,
            max_pre,
            outcomes.len(),
            sync_max,
            created_max,
            json_str(&capped)
        ));
        if let Some((choices, msg)) = &violation {
            rep.lines.push(format!(
                "{{\"kind\":\"violation\",\"index\":{},\"harness\":{},\"message\":{},\"schedule\":[{}]}}",
                idx,
                json_str(&p.name),
                json_str(msg),
                choices.iter().map(|c| c.to_string()).collect::<Vec<_>>().join(",")
            ));
            rep.code = 1;
            first_bad.fetch_min(idx, Ordering::SeqCst);
        }
        if let Some(m) = &machinery {
            if rep.code == 0 {
                rep.lines.push(format!("{{\"kind\":\"machinery\",\"message\":{}}}", json_str(m)));
                rep.code = 2;
                first_bad.fetch_min(idx, Ordering::SeqCst);
            }
        }
        rep
    };
    let reports = if code == 0 { par_map(progs.len(), workers, &explore_one) } else { vec![] };
    for rep in reports {
        total_sched += rep.schedules;
        total_points += rep.choice_points;
        for l in &rep.lines {
            println!("{}", l);
        }
        if rep.code != 0 {
            code = rep.code;
            break;
        }
    }
    println!("{{\"kind\":\"done\",\"harnesses\":{},\"schedules\":{},\"choice_points\":{},\"fresh_processes\":{},\"wall_s\":{:.1}}}", progs.len(), total_sched, total_points, total_sched + 2 * (nf as u64) * 3, t0.elapsed().as_secs_f64());
    let _ = std::io::stdout().flush();
    std::process::exit(code);
}
