#!/usr/bin/env python3
"""Regenerates /verif/MANIFEST.json from the table below (kept next to the checks so that the
manifest never drifts from what is built).  Run after adding a check."""
import json, os, subprocess
V = "/verif"
built = {}   # id -> dict(level, text, note, technique, design)
def add(i, level, text, note, technique, design):
    built[i] = dict(level=level, text=text, note=note, technique=technique, design=design)

exec(open(os.path.join(V, "manifest_table.py")).read())

props = [json.loads(l) for l in open(os.path.join(V, "properties.jsonl"))]
checks, na = [], []
for p in props:
    i = p["id"]
    if i in built:
        b = built[i]
        checks.append({
            "property_id": i,
            "quick_cmd": f"/verif/run.sh {i} quick",
            "thorough_cmd": f"/verif/run.sh {i} thorough",
            "evidence_file": f"/verif/evidence/{i}.json",
            "replay_cmd_template": f"/verif/run.sh {i} --replay {{path}}",
            "engine": "ppverif",
            "level_claimed": {"category": b["level"], "text": b["text"], "design_ref": b["design"]},
            "level_note": b["note"],
            "technique": b["technique"],
        })
    else:
        na.append({"property_id": i, "reason": "check not built yet in this round (planned, see DESIGN.md section 4); not claimed until it runs"})
hooks_commits = []
try:
    out = subprocess.run(["git", "-C", "/repo", "log", "--format=%H %s"], capture_output=True, text=True).stdout
    hooks_commits = [l.split()[0] for l in out.splitlines() if "verif hook" in l or l.split(" ",1)[1].startswith("hooks:")]
except Exception:
    pass
m = {
    "version": 1,
    "setup_cmd": "/verif/run.sh --build",
    "hooks": {
        "guard": "--cfg pairing_plus_verif",
        "enable": "RUSTFLAGS=\"--cfg pairing_plus_verif\" (set by /verif/run.sh for the harness build, which compiles /repo as a path dependency into /verif/target)",
        "baseline_off_cmd": "cd /repo && cargo test --workspace --no-fail-fast --offline",
        "source_commits": hooks_commits,
        "add_only": True,
    },
    "engines": [{
        "name": "ppverif",
        "path": "/verif/harness",
        "serves_properties": sorted(built.keys()),
        "kind_free_text": "Rust harness: bounded exhaustive enumeration (cross products over structured alphabets, complete toy-curve state spaces through the repository's own curve_impl! macro, explicit-state BFS over operation sequences with stateright, environment-answer and schedule enumeration) against an independent big-integer reference model",
    }],
    "checks": checks,
    "notes": "All commands go through /verif/run.sh, which rebuilds the harness and the subject from /repo's working tree (hooks on) and then runs one check; exit 0 ok, 1 VIOLATION, 2 machinery error. Evidence is written by the check itself.",
    "not_applicable": na,
}
json.dump(m, open(os.path.join(V, "MANIFEST.json"), "w"), indent=1)
print("checks:", len(checks), "not_applicable:", len(na))
