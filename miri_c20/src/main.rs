//! Free-running pass for C20 under Miri (data-race and UB detector): several real threads execute library
//! calls concurrently, sharing what the API documents as shareable.  Miri reports a data race or undefined
//! behaviour regardless of whether the racy interleaving actually produced a wrong value in this run.
//! Scalars are tiny so that the interpreter finishes in about a minute.
extern crate pairing_plus;
use ff::PrimeField;
use pairing_plus::bls12_381::{Fr, FrRepr, G1Affine, G1, G2};
use pairing_plus::{CurveAffine, CurveProjective, Wnaf};
use std::sync::{Arc, Barrier};

fn k(n: u64) -> FrRepr {
    Fr::from_repr(FrRepr([n, 0, 0, 0])).unwrap().into_repr()
}

fn main() {
    let n = 3;
    let barrier = Arc::new(Barrier::new(n));
    // shared wNAF table
    let mut wn = Wnaf::new();
    let wb = wn.base(G1::one(), 2);
    let expected: Vec<G1> = (0..n).map(|t| { let mut p = G1::one(); p.mul_assign(k(5 + t as u64)); p }).collect();
    std::thread::scope(|s| {
        for t in 0..n {
            let barrier = barrier.clone();
            let wb = &wb;
            let expected = &expected;
            s.spawn(move || {
                barrier.wait();
                // first use of several entry points at the same time in every thread
                let mut a = G1::one();
                a.mul_assign(k(5 + t as u64));
                assert!(a == expected[t], "G1 mul_assign differs under concurrency");
                let b: G1 = wb.shared().scalar(k(5 + t as u64));
                assert!(b == expected[t], "shared wNAF table gives a different result");
                let c = G1Affine::one().mul(k(5 + t as u64));
                assert!(c == expected[t]);
                let mut d = G2::one();
                d.mul_assign(k(3));
                let e = G1Affine::sum_of_products(&[G1Affine::one(), a.into_affine()], &[&k(2).0, &k(3).0]);
                let _ = (d, e);
            });
        }
    });
    println!("miri pass ok");
}
