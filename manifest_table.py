# id, level, text, note, technique, design section
add("C08", "exploration",
    "Every field operation of Fq and Fr and every operation of the 384/256-bit representation types is run on the full cross product of a structured value alphabet (limb-boundary integers, Montgomery radix values, zero/all-ones limbs, values at and above the modulus, seeded tail) - all pairs, all shift amounts 0..=2*bits+1, exponents of 0..12 limbs - and compared with big-integer arithmetic modulo q and r. The arithmetic is derive-generated and uniform in its operands, so what can go wrong is carry/borrow/limb-boundary handling and reduction, which the alphabet is built around.",
    "Trusted: num-bigint integer arithmetic as the oracle; values outside the alphabet are covered only through the uniformity of the limb code.",
    "exhaustive cross-product enumeration of a boundary-value alphabet against a big-integer reference model",
    "DESIGN.md section 4 C08")
