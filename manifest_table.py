# id, level, text, note, technique, design section
add("C08", "exploration",
    "Every field operation of Fq and Fr and every operation of the 384/256-bit representation types is run on the full cross product of a structured value alphabet (limb-boundary integers, Montgomery radix values, zero/all-ones limbs, values at and above the modulus, seeded tail) - all pairs, all shift amounts 0..=2*bits+1, exponents of 0..12 limbs - and compared with big-integer arithmetic modulo q and r. The arithmetic is derive-generated and uniform in its operands, so what can go wrong is carry/borrow/limb-boundary handling and reduction, which the alphabet is built around.",
    "Trusted: num-bigint integer arithmetic as the oracle; values outside the alphabet are covered only through the uniformity of the limb code.",
    "exhaustive cross-product enumeration of a boundary-value alphabet against a big-integer reference model",
    "DESIGN.md section 4 C08")
add("C09", "exploration",
    "Fq2, Fq6 and Fq12 arithmetic (add, sub, neg, double, mul, square, inverse, non-residue multiplication, norm, conjugation), Frobenius for k in 0..25 and 10^6+0..11, and the sparse products mul_by_1 / mul_by_01 / mul_by_014 are run on every sparsity mask of the 6/12 Fq coefficients (x several value assignments), on the generators u, v, w and their products, on subfield elements and seeded dense elements, and compared with schoolbook arithmetic in the quotient rings Fq[u]/(u^2+1), Fq2[v]/(v^3-(u+1)), Fq6[w]/(w^2-v) on big integers; Frobenius is compared with x^(q^k) computed from u^q, v^q, w^q. The tower code is straight-line Karatsuba-style formulas whose possible errors are in which coefficient is combined with which - exactly what the mask enumeration separates.",
    "Trusted: schoolbook quotient-ring arithmetic on num-bigint; x^(q^12)=x; self-certified model inverses. Values outside the alphabet rely on the formulas being polynomial identities (no data-dependent branches in the tower).",
    "exhaustive enumeration of sparsity masks x operations against a schoolbook quotient-ring model",
    "DESIGN.md section 4 C09")
add("C18", "exploration",
    "sqrt/legendre of Fq, Fr and Fq2, sgn0 of Fq and Fq2 and the orderings are evaluated on alphabets that contain members of every class the code distinguishes (zero, residue, non-residue; for Fq2: in Fq with real or purely imaginary root, purely imaginary, the alpha=-1 branch of the square-root algorithm, norm residue / non-residue), the classes being computed by the reference model (Euler criterion on big integers); all pairs of a sub-alphabet for the Fq2 order.",
    "Trusted: Euler criterion / Tonelli-Shanks on num-bigint. 'Some square root' is accepted. Elements outside the alphabet rely on the class structure being complete.",
    "class-complete alphabet enumeration against a big-integer Euler-criterion oracle",
    "DESIGN.md section 4 C18")
