#!/bin/sh
# usage: run.sh <ID> <quick|thorough>   |   run.sh <ID> --replay <file>   |   run.sh --build
# Rebuilds the harness (and, through the path dependency, the subject from /repo's current working tree,
# with the verification hooks enabled) and runs one check.  exit 0 ok / 1 VIOLATION / 2 machinery.
export CARGO_TARGET_DIR=/verif/target
export RUSTFLAGS="--cfg pairing_plus_verif"
export CARGO_NET_OFFLINE=true
mkdir -p /verif/target /verif/evidence /verif/replays
LOG=/verif/target/build.$$.log
if ! cargo build --release --offline --manifest-path /verif/harness/Cargo.toml >"$LOG" 2>&1; then
  # The toy instantiation compiles the subject's own curve_impl! macro text against harness stubs; a change to that macro
  # (e.g. a new per-curve helper) can break only this part.  Fall back to a build without it: every check still runs its
  # non-toy parts and says DEGRADED for what it had to skip.
  if cargo build --release --offline --no-default-features --manifest-path /verif/harness/Cargo.toml >"$LOG.2" 2>&1; then
    echo "DEGRADED-BUILD: the extracted curve_impl! macro did not compile over the toy fields; toy-curve parts are skipped:"
    grep -E "^error" -A3 "$LOG" | head -12
    rm -f "$LOG.2"
  else
    echo "MACHINERY-ERROR build failed (harness or subject does not compile); last lines:"
    grep -E "^(error|warning: unused)" -A6 "$LOG.2" | head -60
    rm -f "$LOG" "$LOG.2"
    exit 2
  fi
fi
rm -f "$LOG"
[ "$1" = "--build" ] && exit 0
exec /verif/target/release/ppverif "$@"
