#!/bin/sh
# usage: run.sh <ID> <quick|thorough>   |   run.sh <ID> --replay <file>   |   run.sh --build
# Rebuilds the harness (and, through the path dependency, the subject from /repo's current working tree,
# with the verification hooks enabled) and runs one check.  exit 0 ok / 1 VIOLATION / 2 machinery.
export CARGO_TARGET_DIR=/verif/target
export RUSTFLAGS="--cfg pairing_plus_verif"
export CARGO_NET_OFFLINE=true
mkdir -p /verif/target /verif/evidence /verif/replays
LOG=/verif/target/build.$$.log
if ! cargo build --release --offline --manifest-path /verif/harness/Cargo.toml >"$LOG" 2>&1; then
  echo "MACHINERY-ERROR build failed (harness or subject does not compile); last lines:"
  grep -E "^(error|warning: unused)" -A6 "$LOG" | head -60
  rm -f "$LOG"
  exit 2
fi
rm -f "$LOG"
[ "$1" = "--build" ] && exit 0
exec /verif/target/release/ppverif "$@"
