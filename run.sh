#!/bin/sh
# usage: run.sh <ID> <quick|thorough>   |   run.sh <ID> --replay <file>   |   run.sh --build
# Rebuilds the harness (and, through the path dependency, the subject from /repo's current working tree,
# with the verification hooks enabled) and runs one check.  exit 0 ok / 1 VIOLATION / 2 machinery.
export CARGO_TARGET_DIR=/verif/target
export RUSTFLAGS="--cfg pairing_plus_verif"
export CARGO_NET_OFFLINE=true
mkdir -p /verif/target /verif/evidence /verif/replays
LOG=/verif/target/build.$$.log
if ! cargo build --release --offline --manifest-path /verif/harness/Cargo.toml >"$LOG" 2>&1; then
  # The toy instantiation compiles the subject's own curve_impl! macro text against harness stubs; a change to that macro
  # (e.g. a new per-curve helper) can break only this part.  Fall back to a build without it: every check still runs its
  # non-toy parts and says DEGRADED for what it had to skip.
  if cargo build --release --offline --no-default-features --manifest-path /verif/harness/Cargo.toml >"$LOG.2" 2>&1; then
    echo "DEGRADED-BUILD: the extracted curve_impl! macro did not compile over the toy fields; toy-curve parts are skipped:"
    grep -E "^error" -A3 "$LOG" | head -12
    rm -f "$LOG.2"
  else
    echo "MACHINERY-ERROR build failed (harness or subject does not compile); last lines:"
    grep -E "^(error|warning: unused)" -A6 "$LOG.2" | head -60
    rm -f "$LOG" "$LOG.2"
    exit 2
  fi
fi
rm -f "$LOG"
# Instrumented copy of the subject (std::sync / std::thread rewritten to the scheduling shim) and its explorer, used by C20.
# A failure here only removes that part of C20 (the check says so); it is never a verdict.
REPO=${PPVERIF_REPO:-/repo}
SB=$CARGO_TARGET_DIR/syncbuild
if python3 /verif/syncshim/instrument.py "$REPO" "$SB" >"$CARGO_TARGET_DIR/ppsync.status" 2>&1 && \
   cargo build --release --offline --manifest-path "$SB/ppsync/Cargo.toml" >"$CARGO_TARGET_DIR/ppsync.build.log" 2>&1; then
  :
else
  rm -f "$CARGO_TARGET_DIR/release/ppsync"
  { echo "instrumented build failed: $(grep -E '^error' -A4 "$CARGO_TARGET_DIR/ppsync.build.log" 2>/dev/null | head -5 | tr '\n' ' ')"; } >"$CARGO_TARGET_DIR/release/ppsync.status"
  echo "NOTE: the instrumented copy of the subject did not build; C20 runs without its sync-level schedule exploration"
fi
[ "$1" = "--build" ] && exit 0
exec /verif/target/release/ppverif "$@"
