#!/usr/bin/env python3
import json, jsonschema, glob, sys
ok = True
def v(path, schema):
    global ok
    try:
        jsonschema.validate(json.load(open(path)), json.load(open(schema)))
    except Exception as e:
        ok = False; print("INVALID", path, str(e)[:300])
v('/verif/MANIFEST.json', '/root/.vp/MANIFEST.schema.json')
for f in sorted(glob.glob('/verif/evidence/*.json')):
    v(f, '/root/.vp/EVIDENCE.schema.json')
print("valid" if ok else "INVALID"); sys.exit(0 if ok else 1)
