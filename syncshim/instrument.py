#!/usr/bin/env python3
"""instrument.py <repo> <outdir>

Builds the INSTRUMENTED COPY of the subject used by the synchronisation-level schedule exploration (C20):
  <outdir>/irepo   = <repo>'s working tree (Cargo.toml, Cargo.lock, src/, benches/) with every path `std::sync` rewritten to
                     `crate::verif_sync` and every path `std::thread` to `crate::verif_sync::thread`, plus the shim module
                     /verif/syncshim/verif_sync.rs as src/verif_sync.rs
  <outdir>/ppsync  = copy of /verif/harness_sync (its Cargo.toml points at ../irepo)
The copy is rebuilt from the working tree on every invocation; files are only rewritten when their content changed, so cargo
does not rebuild needlessly.  Prints one line: INSTRUMENTED files=<n> rewritten_paths=<k> nested_use_rewrites=<j>
"""
import os, re, sys, shutil

HERE = os.path.dirname(os.path.abspath(__file__))
VERIF = os.path.dirname(HERE)


def write_if_changed(path, data):
    os.makedirs(os.path.dirname(path), exist_ok=True)
    if os.path.exists(path):
        with open(path, "rb") as f:
            if f.read() == data:
                return
    with open(path, "wb") as f:
        f.write(data)


def split_top(s):
    """split a use-group body at top-level commas"""
    out, depth, cur = [], 0, ""
    for ch in s:
        if ch == "{":
            depth += 1
        elif ch == "}":
            depth -= 1
        if ch == "," and depth == 0:
            out.append(cur)
            cur = ""
        else:
            cur += ch
    if cur.strip():
        out.append(cur)
    return [x.strip() for x in out if x.strip()]


USE_GROUP = re.compile(r"(?P<vis>\bpub(?:\([^)]*\))?\s+)?\buse\s+(?:::)?(?P<root>std|core)::\{")


def rewrite_nested_uses(src):
    """`use std::{a, sync::{X, Y}, thread};`  ->  `use std::{a}; use crate::verif_sync::{X, Y}; use crate::verif_sync::thread;`"""
    n = 0
    pos = 0
    out = ""
    while True:
        m = USE_GROUP.search(src, pos)
        if not m:
            out += src[pos:]
            break
        # find the matching closing brace
        i = m.end()
        depth = 1
        while i < len(src) and depth > 0:
            if src[i] == "{":
                depth += 1
            elif src[i] == "}":
                depth -= 1
            i += 1
        body = src[m.end():i - 1]
        j = i
        while j < len(src) and src[j] in " \t\r\n":
            j += 1
        if j >= len(src) or src[j] != ";":
            out += src[pos:i]
            pos = i
            continue
        items = split_top(body)
        keep, moved = [], []
        for it in items:
            if re.match(r"(sync|thread)\b", it):
                moved.append(it)
            else:
                keep.append(it)
        if not moved:
            out += src[pos:j + 1]
            pos = j + 1
            continue
        n += len(moved)
        vis = m.group("vis") or ""
        out += src[pos:m.start()]
        stmts = []
        if keep:
            stmts.append("%suse %s::{%s};" % (vis, m.group("root"), ", ".join(keep)))
        for it in moved:
            if it.startswith("sync"):
                stmts.append("%suse crate::verif_sync%s;" % (vis, it[len("sync"):]))
            else:
                stmts.append("%suse crate::verif_sync::thread%s;" % (vis, it[len("thread"):]))
        out += " ".join(stmts)
        pos = j + 1
    return out, n


PATH_SYNC = re.compile(r"(?<![A-Za-z0-9_])(?:::)?(?:std|core)::sync\b")
PATH_THREAD = re.compile(r"(?<![A-Za-z0-9_])(?:::)?std::thread\b(?!_local)")


def instrument_source(text):
    text, nested = rewrite_nested_uses(text)
    text, a = PATH_SYNC.subn("crate::verif_sync", text)
    text, b = PATH_THREAD.subn("crate::verif_sync::thread", text)
    return text, a + b, nested


def main():
    repo, outdir = sys.argv[1], sys.argv[2]
    irepo = os.path.join(outdir, "irepo")
    files = rewritten = nested_total = 0
    wanted = set()
    for top in ["Cargo.toml", "Cargo.lock"]:
        p = os.path.join(repo, top)
        if os.path.exists(p):
            write_if_changed(os.path.join(irepo, top), open(p, "rb").read())
            wanted.add(os.path.join(irepo, top))
    for sub in ["src", "benches"]:
        base = os.path.join(repo, sub)
        for root, dirs, fs in os.walk(base):
            for fn in fs:
                sp = os.path.join(root, fn)
                rel = os.path.relpath(sp, repo)
                dp = os.path.join(irepo, rel)
                data = open(sp, "rb").read()
                if sub == "src" and fn.endswith(".rs"):
                    text = data.decode("utf-8")
                    text, k, nested = instrument_source(text)
                    rewritten += k
                    nested_total += nested
                    if rel == os.path.join("src", "lib.rs"):
                        text += "\n#[doc(hidden)]\n#[allow(missing_debug_implementations, missing_docs)]\npub mod verif_sync;\n"
                    data = text.encode("utf-8")
                    files += 1
                write_if_changed(dp, data)
                wanted.add(dp)
    shim = open(os.path.join(HERE, "verif_sync.rs"), "rb").read()
    write_if_changed(os.path.join(irepo, "src", "verif_sync.rs"), shim)
    wanted.add(os.path.join(irepo, "src", "verif_sync.rs"))
    # remove files that disappeared from the working tree
    for root, dirs, fs in os.walk(irepo):
        for fn in fs:
            p = os.path.join(root, fn)
            if p not in wanted:
                os.remove(p)
    # the harness crate
    hs = os.path.join(VERIF, "harness_sync")
    hd = os.path.join(outdir, "ppsync")
    wanted = set()
    for root, dirs, fs in os.walk(hs):
        dirs[:] = [d for d in dirs if d != "target"]
        for fn in fs:
            sp = os.path.join(root, fn)
            dp = os.path.join(hd, os.path.relpath(sp, hs))
            write_if_changed(dp, open(sp, "rb").read())
            wanted.add(dp)
    lock = os.path.join(repo, "Cargo.lock")
    for root, dirs, fs in os.walk(hd):
        for fn in fs:
            p = os.path.join(root, fn)
            if p not in wanted and fn != "Cargo.lock":
                os.remove(p)
    print("INSTRUMENTED files=%d rewritten_paths=%d nested_use_rewrites=%d" % (files, rewritten, nested_total))


if __name__ == "__main__":
    main()
