// Injected by /verif/syncshim/instrument.py into an INSTRUMENTED COPY of the subject (never into /repo itself).
//
// Scheduling-aware stand-ins for std::sync / std::thread.  In the instrumented copy every path `std::sync` is rewritten to
// `crate::verif_sync` and every path `std::thread` to `crate::verif_sync::thread`, so whatever synchronisation the subject's
// source uses - today none, tomorrow a cache behind a Mutex, an atomic flag, a lazily built table, worker threads with a
// channel - resolves to the types below.  Each operation is a scheduling point of the harness's baton scheduler (one thread
// runs between points); an operation that cannot proceed hands the baton on instead of blocking.  Without an installed runtime
// (thread-local) every type behaves exactly like its std counterpart.
//
// Everything not redefined here (Arc, Weak, Condvar, Barrier, PoisonError, guards, ...) is std's, re-exported by the globs.
#![allow(dead_code, missing_docs, unused_imports, deprecated)]

pub use std::sync::*;

use std::cell::RefCell;
use std::fmt;
use std::sync::atomic::Ordering as O;

/// What the harness's scheduler offers to the shim.
pub trait Runtime: Send + Sync {
    /// a scheduling point in front of a synchronisation operation of thread `tid`
    fn point(&self, tid: usize, id: u32);
    /// thread `tid` cannot proceed (lock held, channel empty, child not finished, initialiser running elsewhere); returns
    /// false when the scheduler has given up control (the caller then uses the blocking std operation)
    fn blocked(&self, tid: usize, id: u32) -> bool;
    /// a new thread created by `parent`; returns its id
    fn spawn(&self, parent: usize) -> usize;
    /// first thing a spawned thread does: wait for the baton
    fn child_start(&self, tid: usize);
    /// last thing a spawned thread does
    fn child_finish(&self, tid: usize);
    fn is_finished(&self, tid: usize) -> bool;
}

thread_local! {
    static CUR: RefCell<Option<(std::sync::Arc<dyn Runtime>, usize)>> = RefCell::new(None);
}
/// install (or remove) the runtime for the calling thread
pub fn set_runtime(rt: Option<(std::sync::Arc<dyn Runtime>, usize)>) {
    CUR.with(|c| *c.borrow_mut() = rt);
}
fn cur() -> Option<(std::sync::Arc<dyn Runtime>, usize)> {
    CUR.try_with(|c| c.borrow().clone()).ok().and_then(|x| x)
}
pub const P_MUTEX: u32 = 100;
pub const P_RW_READ: u32 = 101;
pub const P_RW_WRITE: u32 = 102;
pub const P_ATOMIC_LOAD: u32 = 103;
pub const P_ATOMIC_RMW: u32 = 104;
pub const P_ONCE: u32 = 105;
pub const P_SEND: u32 = 106;
pub const P_RECV: u32 = 107;
pub const P_SPAWN: u32 = 108;
pub const P_JOIN: u32 = 109;
pub const P_YIELD: u32 = 110;
pub const P_ATOMIC_AFTER: u32 = 111;

pub fn point(id: u32) {
    if let Some((rt, t)) = cur() {
        rt.point(t, id);
    }
}
/// returns false when no runtime is installed (the caller then falls back to the blocking std operation)
pub fn blocked(id: u32) -> bool {
    if let Some((rt, t)) = cur() {
        rt.blocked(t, id)
    } else {
        false
    }
}

// ------------------------------------------------------------------------------------------------ Mutex
pub struct Mutex<T: ?Sized>(std::sync::Mutex<T>);
impl<T> Mutex<T> {
    pub const fn new(t: T) -> Self {
        Mutex(std::sync::Mutex::new(t))
    }
    pub fn into_inner(self) -> LockResult<T> {
        self.0.into_inner()
    }
}
impl<T: ?Sized> Mutex<T> {
    pub fn lock(&self) -> LockResult<MutexGuard<'_, T>> {
        point(P_MUTEX);
        loop {
            match self.0.try_lock() {
                Ok(g) => return Ok(g),
                Err(TryLockError::Poisoned(e)) => return Err(e),
                Err(TryLockError::WouldBlock) => {
                    if !blocked(P_MUTEX) {
                        return self.0.lock();
                    }
                }
            }
        }
    }
    pub fn try_lock(&self) -> TryLockResult<MutexGuard<'_, T>> {
        point(P_MUTEX);
        self.0.try_lock()
    }
    pub fn is_poisoned(&self) -> bool {
        self.0.is_poisoned()
    }
    pub fn clear_poison(&self) {
        self.0.clear_poison()
    }
    pub fn get_mut(&mut self) -> LockResult<&mut T> {
        self.0.get_mut()
    }
}
impl<T: Default> Default for Mutex<T> {
    fn default() -> Self {
        Mutex::new(T::default())
    }
}
impl<T> From<T> for Mutex<T> {
    fn from(t: T) -> Self {
        Mutex::new(t)
    }
}
impl<T: ?Sized + fmt::Debug> fmt::Debug for Mutex<T> {
    fn fmt(&self, f: &mut fmt::Formatter<'_>) -> fmt::Result {
        self.0.fmt(f)
    }
}

// ------------------------------------------------------------------------------------------------ RwLock
pub struct RwLock<T: ?Sized>(std::sync::RwLock<T>);
impl<T> RwLock<T> {
    pub const fn new(t: T) -> Self {
        RwLock(std::sync::RwLock::new(t))
    }
    pub fn into_inner(self) -> LockResult<T> {
        self.0.into_inner()
    }
}
impl<T: ?Sized> RwLock<T> {
    pub fn read(&self) -> LockResult<RwLockReadGuard<'_, T>> {
        point(P_RW_READ);
        loop {
            match self.0.try_read() {
                Ok(g) => return Ok(g),
                Err(TryLockError::Poisoned(e)) => return Err(e),
                Err(TryLockError::WouldBlock) => {
                    if !blocked(P_RW_READ) {
                        return self.0.read();
                    }
                }
            }
        }
    }
    pub fn write(&self) -> LockResult<RwLockWriteGuard<'_, T>> {
        point(P_RW_WRITE);
        loop {
            match self.0.try_write() {
                Ok(g) => return Ok(g),
                Err(TryLockError::Poisoned(e)) => return Err(e),
                Err(TryLockError::WouldBlock) => {
                    if !blocked(P_RW_WRITE) {
                        return self.0.write();
                    }
                }
            }
        }
    }
    pub fn try_read(&self) -> TryLockResult<RwLockReadGuard<'_, T>> {
        point(P_RW_READ);
        self.0.try_read()
    }
    pub fn try_write(&self) -> TryLockResult<RwLockWriteGuard<'_, T>> {
        point(P_RW_WRITE);
        self.0.try_write()
    }
    pub fn is_poisoned(&self) -> bool {
        self.0.is_poisoned()
    }
    pub fn clear_poison(&self) {
        self.0.clear_poison()
    }
    pub fn get_mut(&mut self) -> LockResult<&mut T> {
        self.0.get_mut()
    }
}
impl<T: Default> Default for RwLock<T> {
    fn default() -> Self {
        RwLock::new(T::default())
    }
}
impl<T> From<T> for RwLock<T> {
    fn from(t: T) -> Self {
        RwLock::new(t)
    }
}
impl<T: ?Sized + fmt::Debug> fmt::Debug for RwLock<T> {
    fn fmt(&self, f: &mut fmt::Formatter<'_>) -> fmt::Result {
        self.0.fmt(f)
    }
}

// ------------------------------------------------------------------------------------------------ one-time initialisation
struct RunFlag<'a>(&'a std::sync::atomic::AtomicBool);
impl<'a> Drop for RunFlag<'a> {
    fn drop(&mut self) {
        self.0.store(false, O::SeqCst);
    }
}

pub struct Once {
    inner: std::sync::Once,
    running: std::sync::atomic::AtomicBool,
}
impl Once {
    pub const fn new() -> Self {
        Once { inner: std::sync::Once::new(), running: std::sync::atomic::AtomicBool::new(false) }
    }
    pub fn is_completed(&self) -> bool {
        point(P_ATOMIC_LOAD);
        self.inner.is_completed()
    }
    pub fn call_once<F: FnOnce()>(&self, f: F) {
        point(P_ONCE);
        if cur().is_none() {
            return self.inner.call_once(f);
        }
        let mut f = Some(f);
        loop {
            if self.inner.is_completed() {
                return;
            }
            if self.running.compare_exchange(false, true, O::SeqCst, O::SeqCst).is_ok() {
                let _g = RunFlag(&self.running);
                let ff = f.take().expect("shim: Once closure taken twice");
                self.inner.call_once(ff);
                return;
            }
            if !blocked(P_ONCE) {
                std::thread::yield_now();
            }
        }
    }
    pub fn call_once_force<F: FnOnce(&OnceState)>(&self, f: F) {
        point(P_ONCE);
        if cur().is_none() {
            return self.inner.call_once_force(f);
        }
        let mut f = Some(f);
        loop {
            if self.inner.is_completed() {
                return;
            }
            if self.running.compare_exchange(false, true, O::SeqCst, O::SeqCst).is_ok() {
                let _g = RunFlag(&self.running);
                let ff = f.take().expect("shim: Once closure taken twice");
                self.inner.call_once_force(ff);
                return;
            }
            if !blocked(P_ONCE) {
                std::thread::yield_now();
            }
        }
    }
}
impl fmt::Debug for Once {
    fn fmt(&self, f: &mut fmt::Formatter<'_>) -> fmt::Result {
        self.inner.fmt(f)
    }
}

pub struct OnceLock<T> {
    inner: std::sync::OnceLock<T>,
    running: std::sync::atomic::AtomicBool,
}
impl<T> OnceLock<T> {
    pub const fn new() -> Self {
        OnceLock { inner: std::sync::OnceLock::new(), running: std::sync::atomic::AtomicBool::new(false) }
    }
    pub fn get(&self) -> Option<&T> {
        point(P_ATOMIC_LOAD);
        self.inner.get()
    }
    pub fn get_mut(&mut self) -> Option<&mut T> {
        self.inner.get_mut()
    }
    pub fn set(&self, value: T) -> Result<(), T> {
        point(P_ONCE);
        if cur().is_none() {
            return self.inner.set(value);
        }
        let mut v = Some(value);
        loop {
            if self.inner.get().is_some() {
                return Err(v.take().unwrap());
            }
            if self.running.compare_exchange(false, true, O::SeqCst, O::SeqCst).is_ok() {
                let _g = RunFlag(&self.running);
                return self.inner.set(v.take().unwrap());
            }
            if !blocked(P_ONCE) {
                std::thread::yield_now();
            }
        }
    }
    pub fn get_or_init<F: FnOnce() -> T>(&self, f: F) -> &T {
        point(P_ONCE);
        if cur().is_none() {
            return self.inner.get_or_init(f);
        }
        let mut f = Some(f);
        loop {
            if let Some(v) = self.inner.get() {
                return v;
            }
            if self.running.compare_exchange(false, true, O::SeqCst, O::SeqCst).is_ok() {
                let _g = RunFlag(&self.running);
                let ff = f.take().expect("shim: OnceLock closure taken twice");
                return self.inner.get_or_init(ff);
            }
            if !blocked(P_ONCE) {
                std::thread::yield_now();
            }
        }
    }
    pub fn into_inner(self) -> Option<T> {
        self.inner.into_inner()
    }
    pub fn take(&mut self) -> Option<T> {
        self.inner.take()
    }
}
impl<T> Default for OnceLock<T> {
    fn default() -> Self {
        OnceLock::new()
    }
}
impl<T: Clone> Clone for OnceLock<T> {
    fn clone(&self) -> Self {
        point(P_ATOMIC_LOAD);
        OnceLock { inner: self.inner.clone(), running: std::sync::atomic::AtomicBool::new(false) }
    }
}
impl<T: PartialEq> PartialEq for OnceLock<T> {
    fn eq(&self, other: &Self) -> bool {
        self.get() == other.get()
    }
}
impl<T: Eq> Eq for OnceLock<T> {}
impl<T> From<T> for OnceLock<T> {
    fn from(value: T) -> Self {
        OnceLock { inner: std::sync::OnceLock::from(value), running: std::sync::atomic::AtomicBool::new(false) }
    }
}
impl<T: fmt::Debug> fmt::Debug for OnceLock<T> {
    fn fmt(&self, f: &mut fmt::Formatter<'_>) -> fmt::Result {
        self.inner.fmt(f)
    }
}

pub struct LazyLock<T, F = fn() -> T> {
    inner: std::sync::LazyLock<T, F>,
    running: std::sync::atomic::AtomicBool,
    done: std::sync::atomic::AtomicBool,
}
impl<T, F: FnOnce() -> T> LazyLock<T, F> {
    pub const fn new(f: F) -> Self {
        LazyLock { inner: std::sync::LazyLock::new(f), running: std::sync::atomic::AtomicBool::new(false), done: std::sync::atomic::AtomicBool::new(false) }
    }
    pub fn force(this: &LazyLock<T, F>) -> &T {
        point(P_ONCE);
        if cur().is_none() {
            return std::sync::LazyLock::force(&this.inner);
        }
        loop {
            if this.done.load(O::SeqCst) {
                return std::sync::LazyLock::force(&this.inner);
            }
            if this.running.compare_exchange(false, true, O::SeqCst, O::SeqCst).is_ok() {
                let _g = RunFlag(&this.running);
                let r = std::sync::LazyLock::force(&this.inner);
                this.done.store(true, O::SeqCst);
                return r;
            }
            if !blocked(P_ONCE) {
                std::thread::yield_now();
            }
        }
    }
}
impl<T, F: FnOnce() -> T> std::ops::Deref for LazyLock<T, F> {
    type Target = T;
    fn deref(&self) -> &T {
        LazyLock::force(self)
    }
}
impl<T: Default> Default for LazyLock<T> {
    fn default() -> Self {
        LazyLock::new(T::default)
    }
}
impl<T: fmt::Debug, F> fmt::Debug for LazyLock<T, F> {
    fn fmt(&self, f: &mut fmt::Formatter<'_>) -> fmt::Result {
        f.write_str("LazyLock(..)")
    }
}

// ------------------------------------------------------------------------------------------------ atomics
pub mod atomic {
    pub use std::sync::atomic::*;
    use super::{point, P_ATOMIC_AFTER, P_ATOMIC_LOAD, P_ATOMIC_RMW};
    use std::fmt;

    macro_rules! atomic_common {
        ($name:ident, $t:ty) => {
            pub struct $name(std::sync::atomic::$name);
            impl $name {
                pub const fn new(v: $t) -> Self {
                    $name(std::sync::atomic::$name::new(v))
                }
                pub fn load(&self, o: Ordering) -> $t {
                    point(P_ATOMIC_LOAD);
                    self.0.load(o)
                }
                pub fn store(&self, v: $t, o: Ordering) {
                    point(P_ATOMIC_RMW);
                    let r = self.0.store(v, o);
                    // a write is also followed by a point: 'published before initialised' needs a switch right after the store
                    point(P_ATOMIC_AFTER);
                    r
                }
                pub fn swap(&self, v: $t, o: Ordering) -> $t {
                    point(P_ATOMIC_RMW);
                    let r = self.0.swap(v, o);
                    // a write is also followed by a point: 'published before initialised' needs a switch right after the store
                    point(P_ATOMIC_AFTER);
                    r
                }
                pub fn compare_and_swap(&self, c: $t, n: $t, o: Ordering) -> $t {
                    point(P_ATOMIC_RMW);
                    match self.0.compare_exchange(c, n, o, Ordering::SeqCst) {
                        Ok(x) => x,
                        Err(x) => x,
                    }
                }
                pub fn compare_exchange(&self, c: $t, n: $t, s: Ordering, f: Ordering) -> Result<$t, $t> {
                    point(P_ATOMIC_RMW);
                    let r = self.0.compare_exchange(c, n, s, f);
                    // a write is also followed by a point: 'published before initialised' needs a switch right after the store
                    point(P_ATOMIC_AFTER);
                    r
                }
                pub fn compare_exchange_weak(&self, c: $t, n: $t, s: Ordering, f: Ordering) -> Result<$t, $t> {
                    point(P_ATOMIC_RMW);
                    let r = self.0.compare_exchange(c, n, s, f);
                    // a write is also followed by a point: 'published before initialised' needs a switch right after the store
                    point(P_ATOMIC_AFTER);
                    r
                }
                pub fn fetch_and(&self, v: $t, o: Ordering) -> $t {
                    point(P_ATOMIC_RMW);
                    let r = self.0.fetch_and(v, o);
                    // a write is also followed by a point: 'published before initialised' needs a switch right after the store
                    point(P_ATOMIC_AFTER);
                    r
                }
                pub fn fetch_nand(&self, v: $t, o: Ordering) -> $t {
                    point(P_ATOMIC_RMW);
                    let r = self.0.fetch_nand(v, o);
                    // a write is also followed by a point: 'published before initialised' needs a switch right after the store
                    point(P_ATOMIC_AFTER);
                    r
                }
                pub fn fetch_or(&self, v: $t, o: Ordering) -> $t {
                    point(P_ATOMIC_RMW);
                    let r = self.0.fetch_or(v, o);
                    // a write is also followed by a point: 'published before initialised' needs a switch right after the store
                    point(P_ATOMIC_AFTER);
                    r
                }
                pub fn fetch_xor(&self, v: $t, o: Ordering) -> $t {
                    point(P_ATOMIC_RMW);
                    let r = self.0.fetch_xor(v, o);
                    // a write is also followed by a point: 'published before initialised' needs a switch right after the store
                    point(P_ATOMIC_AFTER);
                    r
                }
                pub fn fetch_update<F: FnMut($t) -> Option<$t>>(&self, s: Ordering, f: Ordering, g: F) -> Result<$t, $t> {
                    point(P_ATOMIC_RMW);
                    let r = self.0.fetch_update(s, f, g);
                    // a write is also followed by a point: 'published before initialised' needs a switch right after the store
                    point(P_ATOMIC_AFTER);
                    r
                }
                pub fn into_inner(self) -> $t {
                    self.0.into_inner()
                }
                pub fn get_mut(&mut self) -> &mut $t {
                    self.0.get_mut()
                }
            }
            impl Default for $name {
                fn default() -> Self {
                    $name(Default::default())
                }
            }
            impl From<$t> for $name {
                fn from(v: $t) -> Self {
                    $name::new(v)
                }
            }
            impl fmt::Debug for $name {
                fn fmt(&self, f: &mut fmt::Formatter<'_>) -> fmt::Result {
                    self.0.fmt(f)
                }
            }
        };
    }
    macro_rules! atomic_int {
        ($name:ident, $t:ty) => {
            atomic_common!($name, $t);
            impl $name {
                pub fn fetch_add(&self, v: $t, o: Ordering) -> $t {
                    point(P_ATOMIC_RMW);
                    let r = self.0.fetch_add(v, o);
                    // a write is also followed by a point: 'published before initialised' needs a switch right after the store
                    point(P_ATOMIC_AFTER);
                    r
                }
                pub fn fetch_sub(&self, v: $t, o: Ordering) -> $t {
                    point(P_ATOMIC_RMW);
                    let r = self.0.fetch_sub(v, o);
                    // a write is also followed by a point: 'published before initialised' needs a switch right after the store
                    point(P_ATOMIC_AFTER);
                    r
                }
                pub fn fetch_max(&self, v: $t, o: Ordering) -> $t {
                    point(P_ATOMIC_RMW);
                    let r = self.0.fetch_max(v, o);
                    // a write is also followed by a point: 'published before initialised' needs a switch right after the store
                    point(P_ATOMIC_AFTER);
                    r
                }
                pub fn fetch_min(&self, v: $t, o: Ordering) -> $t {
                    point(P_ATOMIC_RMW);
                    let r = self.0.fetch_min(v, o);
                    // a write is also followed by a point: 'published before initialised' needs a switch right after the store
                    point(P_ATOMIC_AFTER);
                    r
                }
            }
        };
    }
    atomic_common!(AtomicBool, bool);
    atomic_int!(AtomicU8, u8);
    atomic_int!(AtomicU16, u16);
    atomic_int!(AtomicU32, u32);
    atomic_int!(AtomicU64, u64);
    atomic_int!(AtomicUsize, usize);
    atomic_int!(AtomicI8, i8);
    atomic_int!(AtomicI16, i16);
    atomic_int!(AtomicI32, i32);
    atomic_int!(AtomicI64, i64);
    atomic_int!(AtomicIsize, isize);

    pub struct AtomicPtr<T>(std::sync::atomic::AtomicPtr<T>);
    impl<T> AtomicPtr<T> {
        pub const fn new(p: *mut T) -> Self {
            AtomicPtr(std::sync::atomic::AtomicPtr::new(p))
        }
        pub fn load(&self, o: Ordering) -> *mut T {
            point(P_ATOMIC_LOAD);
            self.0.load(o)
        }
        pub fn store(&self, p: *mut T, o: Ordering) {
            point(P_ATOMIC_RMW);
            let r = self.0.store(p, o);
            // a write is also followed by a point: 'published before initialised' needs a switch right after the store
            point(P_ATOMIC_AFTER);
            r
        }
        pub fn swap(&self, p: *mut T, o: Ordering) -> *mut T {
            point(P_ATOMIC_RMW);
            let r = self.0.swap(p, o);
            // a write is also followed by a point: 'published before initialised' needs a switch right after the store
            point(P_ATOMIC_AFTER);
            r
        }
        pub fn compare_exchange(&self, c: *mut T, n: *mut T, s: Ordering, f: Ordering) -> Result<*mut T, *mut T> {
            point(P_ATOMIC_RMW);
            let r = self.0.compare_exchange(c, n, s, f);
            // a write is also followed by a point: 'published before initialised' needs a switch right after the store
            point(P_ATOMIC_AFTER);
            r
        }
        pub fn compare_exchange_weak(&self, c: *mut T, n: *mut T, s: Ordering, f: Ordering) -> Result<*mut T, *mut T> {
            point(P_ATOMIC_RMW);
            let r = self.0.compare_exchange(c, n, s, f);
            // a write is also followed by a point: 'published before initialised' needs a switch right after the store
            point(P_ATOMIC_AFTER);
            r
        }
        pub fn into_inner(self) -> *mut T {
            self.0.into_inner()
        }
        pub fn get_mut(&mut self) -> &mut *mut T {
            self.0.get_mut()
        }
    }
    impl<T> Default for AtomicPtr<T> {
        fn default() -> Self {
            AtomicPtr::new(std::ptr::null_mut())
        }
    }
    impl<T> fmt::Debug for AtomicPtr<T> {
        fn fmt(&self, f: &mut fmt::Formatter<'_>) -> fmt::Result {
            self.0.fmt(f)
        }
    }
    pub fn fence(o: Ordering) {
        point(P_ATOMIC_RMW);
        std::sync::atomic::fence(o)
    }
}

// ------------------------------------------------------------------------------------------------ channels
pub mod mpsc {
    pub use std::sync::mpsc::*;
    use super::{blocked, point, P_RECV, P_SEND};
    use std::fmt;
    use std::time::Duration;

    pub struct Sender<T>(std::sync::mpsc::Sender<T>);
    impl<T> Sender<T> {
        pub fn send(&self, t: T) -> Result<(), SendError<T>> {
            point(P_SEND);
            self.0.send(t)
        }
    }
    impl<T> Clone for Sender<T> {
        fn clone(&self) -> Self {
            Sender(self.0.clone())
        }
    }
    impl<T> fmt::Debug for Sender<T> {
        fn fmt(&self, f: &mut fmt::Formatter<'_>) -> fmt::Result {
            self.0.fmt(f)
        }
    }
    pub struct SyncSender<T>(std::sync::mpsc::SyncSender<T>);
    impl<T> SyncSender<T> {
        pub fn send(&self, t: T) -> Result<(), SendError<T>> {
            point(P_SEND);
            let mut v = t;
            loop {
                match self.0.try_send(v) {
                    Ok(()) => return Ok(()),
                    Err(TrySendError::Disconnected(x)) => return Err(SendError(x)),
                    Err(TrySendError::Full(x)) => {
                        if !blocked(P_SEND) {
                            return self.0.send(x);
                        }
                        v = x;
                    }
                }
            }
        }
        pub fn try_send(&self, t: T) -> Result<(), TrySendError<T>> {
            point(P_SEND);
            self.0.try_send(t)
        }
    }
    impl<T> Clone for SyncSender<T> {
        fn clone(&self) -> Self {
            SyncSender(self.0.clone())
        }
    }
    impl<T> fmt::Debug for SyncSender<T> {
        fn fmt(&self, f: &mut fmt::Formatter<'_>) -> fmt::Result {
            self.0.fmt(f)
        }
    }
    pub struct Receiver<T>(std::sync::mpsc::Receiver<T>);
    impl<T> Receiver<T> {
        pub fn recv(&self) -> Result<T, RecvError> {
            point(P_RECV);
            loop {
                match self.0.try_recv() {
                    Ok(v) => return Ok(v),
                    Err(TryRecvError::Disconnected) => return Err(RecvError),
                    Err(TryRecvError::Empty) => {
                        if !blocked(P_RECV) {
                            return self.0.recv();
                        }
                    }
                }
            }
        }
        pub fn try_recv(&self) -> Result<T, TryRecvError> {
            point(P_RECV);
            self.0.try_recv()
        }
        /// under the baton time does not pass: behaves like `recv` (a timeout never fires)
        pub fn recv_timeout(&self, d: Duration) -> Result<T, RecvTimeoutError> {
            point(P_RECV);
            loop {
                match self.0.try_recv() {
                    Ok(v) => return Ok(v),
                    Err(TryRecvError::Disconnected) => return Err(RecvTimeoutError::Disconnected),
                    Err(TryRecvError::Empty) => {
                        if !blocked(P_RECV) {
                            return self.0.recv_timeout(d);
                        }
                    }
                }
            }
        }
        pub fn iter(&self) -> Iter<'_, T> {
            Iter { rx: self }
        }
        pub fn try_iter(&self) -> TryIter<'_, T> {
            TryIter { rx: self }
        }
    }
    impl<T> fmt::Debug for Receiver<T> {
        fn fmt(&self, f: &mut fmt::Formatter<'_>) -> fmt::Result {
            self.0.fmt(f)
        }
    }
    pub struct Iter<'a, T: 'a> {
        rx: &'a Receiver<T>,
    }
    impl<'a, T> Iterator for Iter<'a, T> {
        type Item = T;
        fn next(&mut self) -> Option<T> {
            self.rx.recv().ok()
        }
    }
    pub struct TryIter<'a, T: 'a> {
        rx: &'a Receiver<T>,
    }
    impl<'a, T> Iterator for TryIter<'a, T> {
        type Item = T;
        fn next(&mut self) -> Option<T> {
            self.rx.try_recv().ok()
        }
    }
    pub struct IntoIter<T> {
        rx: Receiver<T>,
    }
    impl<T> Iterator for IntoIter<T> {
        type Item = T;
        fn next(&mut self) -> Option<T> {
            self.rx.recv().ok()
        }
    }
    impl<T> IntoIterator for Receiver<T> {
        type Item = T;
        type IntoIter = IntoIter<T>;
        fn into_iter(self) -> IntoIter<T> {
            IntoIter { rx: self }
        }
    }
    impl<'a, T> IntoIterator for &'a Receiver<T> {
        type Item = T;
        type IntoIter = Iter<'a, T>;
        fn into_iter(self) -> Iter<'a, T> {
            self.iter()
        }
    }
    pub fn channel<T>() -> (Sender<T>, Receiver<T>) {
        let (s, r) = std::sync::mpsc::channel();
        (Sender(s), Receiver(r))
    }
    pub fn sync_channel<T>(bound: usize) -> (SyncSender<T>, Receiver<T>) {
        let (s, r) = std::sync::mpsc::sync_channel(bound);
        (SyncSender(s), Receiver(r))
    }
}

// ------------------------------------------------------------------------------------------------ threads
pub mod thread {
    pub use std::thread::*;
    use super::{blocked, cur, point, set_runtime, Runtime, P_JOIN, P_SPAWN, P_YIELD};
    use std::fmt;
    use std::time::Duration;

    struct FinishGuard(std::sync::Arc<dyn Runtime>, usize);
    impl Drop for FinishGuard {
        fn drop(&mut self) {
            set_runtime(None);
            self.0.child_finish(self.1);
        }
    }
    fn wait_child(child: &Option<(std::sync::Arc<dyn Runtime>, usize)>) {
        if let Some((rt, c)) = child {
            if cur().is_some() {
                point(P_JOIN);
                while !rt.is_finished(*c) {
                    if !blocked(P_JOIN) {
                        break;
                    }
                }
            }
        }
    }

    pub fn yield_now() {
        point(P_YIELD);
        std::thread::yield_now()
    }
    /// under the baton time does not pass: a scheduling point, no real sleep
    pub fn sleep(d: Duration) {
        if cur().is_some() {
            point(P_YIELD);
        } else {
            std::thread::sleep(d)
        }
    }

    pub struct JoinHandle<T> {
        inner: std::thread::JoinHandle<T>,
        child: Option<(std::sync::Arc<dyn Runtime>, usize)>,
    }
    impl<T> JoinHandle<T> {
        pub fn join(self) -> Result<T> {
            wait_child(&self.child);
            self.inner.join()
        }
        pub fn thread(&self) -> &Thread {
            self.inner.thread()
        }
        pub fn is_finished(&self) -> bool {
            match &self.child {
                Some((rt, c)) => {
                    point(P_JOIN);
                    rt.is_finished(*c)
                }
                None => self.inner.is_finished(),
            }
        }
    }
    impl<T> fmt::Debug for JoinHandle<T> {
        fn fmt(&self, f: &mut fmt::Formatter<'_>) -> fmt::Result {
            f.write_str("JoinHandle { .. }")
        }
    }
    pub fn spawn<F, T>(f: F) -> JoinHandle<T>
    where
        F: FnOnce() -> T + Send + 'static,
        T: Send + 'static,
    {
        match cur() {
            None => JoinHandle { inner: std::thread::spawn(f), child: None },
            Some((rt, me)) => {
                point(P_SPAWN);
                let c = rt.spawn(me);
                let rt2 = rt.clone();
                let inner = std::thread::spawn(move || {
                    set_runtime(Some((rt2.clone(), c)));
                    rt2.child_start(c);
                    let g = FinishGuard(rt2, c);
                    let r = f();
                    drop(g);
                    r
                });
                JoinHandle { inner, child: Some((rt, c)) }
            }
        }
    }

    pub struct Scope<'scope, 'env: 'scope> {
        inner: &'scope std::thread::Scope<'scope, 'env>,
        kids: std::sync::Mutex<Vec<(std::sync::Arc<dyn Runtime>, usize)>>,
    }
    impl<'scope, 'env> fmt::Debug for Scope<'scope, 'env> {
        fn fmt(&self, f: &mut fmt::Formatter<'_>) -> fmt::Result {
            f.write_str("Scope { .. }")
        }
    }
    pub struct ScopedJoinHandle<'scope, T> {
        inner: std::thread::ScopedJoinHandle<'scope, T>,
        child: Option<(std::sync::Arc<dyn Runtime>, usize)>,
    }
    impl<'scope, T> ScopedJoinHandle<'scope, T> {
        pub fn join(self) -> Result<T> {
            wait_child(&self.child);
            self.inner.join()
        }
        pub fn thread(&self) -> &Thread {
            self.inner.thread()
        }
        pub fn is_finished(&self) -> bool {
            match &self.child {
                Some((rt, c)) => {
                    point(P_JOIN);
                    rt.is_finished(*c)
                }
                None => self.inner.is_finished(),
            }
        }
    }
    impl<'scope, T> fmt::Debug for ScopedJoinHandle<'scope, T> {
        fn fmt(&self, f: &mut fmt::Formatter<'_>) -> fmt::Result {
            f.write_str("ScopedJoinHandle { .. }")
        }
    }
    impl<'scope, 'env> Scope<'scope, 'env> {
        pub fn spawn<F, T>(&'scope self, f: F) -> ScopedJoinHandle<'scope, T>
        where
            F: FnOnce() -> T + Send + 'scope,
            T: Send + 'scope,
        {
            match cur() {
                None => ScopedJoinHandle { inner: self.inner.spawn(f), child: None },
                Some((rt, me)) => {
                    point(P_SPAWN);
                    let c = rt.spawn(me);
                    self.kids.lock().unwrap().push((rt.clone(), c));
                    let rt2 = rt.clone();
                    let inner = self.inner.spawn(move || {
                        set_runtime(Some((rt2.clone(), c)));
                        rt2.child_start(c);
                        let g = FinishGuard(rt2, c);
                        let r = f();
                        drop(g);
                        r
                    });
                    ScopedJoinHandle { inner, child: Some((rt, c)) }
                }
            }
        }
    }
    pub fn scope<'env, F, T>(f: F) -> T
    where
        F: for<'scope> FnOnce(&'scope Scope<'scope, 'env>) -> T,
    {
        std::thread::scope(|s| {
            // leaked on purpose (a few bytes per call, verification build only): the wrapper must live as long as 'scope
            let ms: &Scope<'_, 'env> = Box::leak(Box::new(Scope { inner: s, kids: std::sync::Mutex::new(vec![]) }));
            let r = f(ms);
            // std joins the children when this closure returns: wait for them under the baton first
            let kids: Vec<_> = ms.kids.lock().unwrap().clone();
            for k in kids {
                wait_child(&Some(k));
            }
            r
        })
    }
}
