// Cuts the text of `macro_rules! curve_impl { ... }` out of the subject's working tree so that the
// harness instantiates *the repository's own token stream* over toy fields (DESIGN.md §2/M1).
use std::{env, fs, path::PathBuf};
fn main() {
    let repo = env::var("PPVERIF_REPO").unwrap_or_else(|_| "/repo".to_string());
    let src = format!("{}/src/bls12_381/ec/mod.rs", repo);
    let src = src.as_str();
    println!("cargo:rerun-if-env-changed=PPVERIF_REPO");
    println!("cargo:rerun-if-changed={}", src);
    println!("cargo:rerun-if-changed=build.rs");
    let text = fs::read_to_string(src).expect("read ec/mod.rs");
    let start = text.find("macro_rules! curve_impl").expect("curve_impl! not found");
    let rest = &text[start..];
    let end = rest.find("\n}\n").expect("end of curve_impl! not found") + 3;
    let mac = &rest[..end];
    let out = PathBuf::from(env::var("OUT_DIR").unwrap()).join("curve_impl_extracted.rs");
    fs::write(out, mac).unwrap();
}
