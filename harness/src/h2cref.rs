//! Shared reference pieces for the hash-to-curve stages (C06, C14, C15, C16): constants read through the
//! hooks and decoded to integers, affine evaluation of the isogeny rational maps, the composed reference map.
#![allow(dead_code)]
use crate::conv::*;
use crate::refmodel::rfc::{sswu, SswuField};
use crate::refmodel::*;
use num_bigint::BigUint;
use pairing_plus::bls12_381::verif::{g1_iso_tables, g1_sswu_consts, g2_iso_tables, g2_sswu_consts, ClearH, IsogenyMap, OSSWUMap};
use pairing_plus::bls12_381::{Fq, Fq2, G1, G2};
use pairing_plus::map_to_curve::MapToCurve;

/// one of the two hash-to-curve suites
pub trait Suite: RealCurve {
    type SF: SswuField;
    fn iso_curve() -> Curve<Self::K>;
    fn z() -> Self::K;
    fn h_eff() -> BigUint;
    /// the library's (A', B', Z) decoded
    fn lib_consts() -> (Self::K, Self::K, Self::K);
    /// the library's isogeny tables decoded: [xnum, xden, ynum, yden], low degree first
    fn lib_iso() -> Vec<Vec<Self::K>>;
    fn sub_field(u: &Self::K) -> <Self::Proj as pairing_plus::CurveProjective>::Base;
    fn lib_sswu(u: &Self::K) -> Self::Proj;
    fn lib_iso_map(p: &mut Self::Proj);
    fn lib_clear_h(p: &mut Self::Proj);
    fn lib_map(u: &Self::K) -> Self::Proj;
    fn lib_map2(u0: &Self::K, u1: &Self::K) -> Self::Proj;
    fn ref_sswu(u: &Self::K) -> (Pt<Self::K>, bool);
    fn sgn0(u: &Self::K) -> u8;
    fn is_square(u: &Self::K) -> bool;
    fn sqrt(u: &Self::K) -> Option<Self::K>;
}

impl Suite for RG1 {
    type SF = Q1;
    fn iso_curve() -> Curve<Q1> {
        e1_iso()
    }
    fn z() -> Q1 {
        sswu_z1()
    }
    fn h_eff() -> BigUint {
        params().h_eff_g1.clone()
    }
    fn lib_consts() -> (Q1, Q1, Q1) {
        let (a, b, z) = g1_sswu_consts();
        (q1_of(&a), q1_of(&b), q1_of(&z))
    }
    fn lib_iso() -> Vec<Vec<Q1>> {
        g1_iso_tables().iter().map(|t| t.iter().map(q1_of).collect()).collect()
    }
    fn sub_field(u: &Q1) -> Fq {
        fq_of(u)
    }
    fn lib_sswu(u: &Q1) -> G1 {
        G1::osswu_map(&fq_of(u))
    }
    fn lib_iso_map(p: &mut G1) {
        p.isogeny_map()
    }
    fn lib_clear_h(p: &mut G1) {
        p.clear_h()
    }
    fn lib_map(u: &Q1) -> G1 {
        <G1 as MapToCurve<G1>>::map_to_curve(&fq_of(u))
    }
    fn lib_map2(u0: &Q1, u1: &Q1) -> G1 {
        <G1 as MapToCurve<G1>>::map2_to_curve(&fq_of(u0), &fq_of(u1))
    }
    fn ref_sswu(u: &Q1) -> (Pt<Q1>, bool) {
        sswu(&e1_iso(), &sswu_z1(), u)
    }
    fn sgn0(u: &Q1) -> u8 {
        u.sgn0()
    }
    fn is_square(u: &Q1) -> bool {
        u.is_square()
    }
    fn sqrt(u: &Q1) -> Option<Q1> {
        u.sqrt()
    }
}
impl Suite for RG2 {
    type SF = Q2;
    fn iso_curve() -> Curve<Q2> {
        e2_iso()
    }
    fn z() -> Q2 {
        sswu_z2()
    }
    fn h_eff() -> BigUint {
        params().h_eff_g2.clone()
    }
    fn lib_consts() -> (Q2, Q2, Q2) {
        let (a, b, z) = g2_sswu_consts();
        (q2_of(&a), q2_of(&b), q2_of(&z))
    }
    fn lib_iso() -> Vec<Vec<Q2>> {
        g2_iso_tables().iter().map(|t| t.iter().map(q2_of).collect()).collect()
    }
    fn sub_field(u: &Q2) -> Fq2 {
        fq2_of(u)
    }
    fn lib_sswu(u: &Q2) -> G2 {
        G2::osswu_map(&fq2_of(u))
    }
    fn lib_iso_map(p: &mut G2) {
        p.isogeny_map()
    }
    fn lib_clear_h(p: &mut G2) {
        p.clear_h()
    }
    fn lib_map(u: &Q2) -> G2 {
        <G2 as MapToCurve<G2>>::map_to_curve(&fq2_of(u))
    }
    fn lib_map2(u0: &Q2, u1: &Q2) -> G2 {
        <G2 as MapToCurve<G2>>::map2_to_curve(&fq2_of(u0), &fq2_of(u1))
    }
    fn ref_sswu(u: &Q2) -> (Pt<Q2>, bool) {
        sswu(&e2_iso(), &sswu_z2(), u)
    }
    fn sgn0(u: &Q2) -> u8 {
        u.sgn0()
    }
    fn is_square(u: &Q2) -> bool {
        u.is_square()
    }
    fn sqrt(u: &Q2) -> Option<Q2> {
        u.sqrt()
    }
}

pub fn poly_eval<F: RF>(coeffs: &[F], x: &F) -> F {
    let mut acc = F::zero();
    for c in coeffs.iter().rev() {
        acc = acc.mul(x).add(c);
    }
    acc
}

/// affine evaluation of the rational maps (x', y') = (xnum/xden, y*ynum/yden); poles map to the identity
pub fn ref_iso<F: RF>(tables: &[Vec<F>], p: &Pt<F>) -> Pt<F> {
    match p {
        Pt::Inf => Pt::Inf,
        Pt::Aff(x, y) => {
            let xd = poly_eval(&tables[1], x);
            let yd = poly_eval(&tables[3], x);
            if xd.is_zero() || yd.is_zero() {
                return Pt::Inf;
            }
            let xn = poly_eval(&tables[0], x);
            let yn = poly_eval(&tables[2], x);
            Pt::Aff(xn.mul(&xd.inv().unwrap()), y.mul(&yn).mul(&yd.inv().unwrap()))
        }
    }
}

/// the RFC composition with the reference group law: clear_cofactor(iso(sswu(u0)) [+ iso(sswu(u1))])
pub fn ref_map<S: Suite>(tables: &[Vec<S::K>], us: &[S::K]) -> Pt<S::K> {
    let e = S::curve();
    let mut acc = Pt::Inf;
    for u in us {
        let (p, _) = S::ref_sswu(u);
        acc = e.add(&acc, &ref_iso(tables, &p));
    }
    e.mul(&acc, &S::h_eff())
}
