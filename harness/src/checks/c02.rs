//! C02 — every scalar-multiplication path computes [k]P.
use crate::alpha;
use crate::conv::*;
use crate::infra::{bump, guard, unrank, Ctx, Fail};
use crate::points::*;
use crate::refmodel::*;
use crate::toy::*;
use crate::toymodel::Group;
use crate::zgroup::{Tiny, ZGroup};
use ff::PrimeField;
use num_bigint::{BigInt, BigUint};
use num_traits::{One, Zero};
use pairing_plus::bls12_381::{Fr, FrRepr, G1, G2};
use pairing_plus::verif_hooks::{wnaf_exp, wnaf_form, wnaf_table};
use pairing_plus::{CurveAffine, CurveProjective, Wnaf};
use serde_json::json;

pub const BOUNDARY_BITS: [usize; 22] = [0, 1, 2, 30, 31, 32, 33, 62, 63, 64, 65, 95, 96, 127, 128, 129, 191, 192, 193, 253, 254, 255];

/// 256-bit scalar alphabet.  full: all weight <= 2; otherwise weight 1 + boundary pairs.
pub fn scalar_alphabet(ctx: &Ctx, full_weight2: bool, seeded: usize) -> Vec<BigUint> {
    let mut v: Vec<BigUint> = alpha::scalar_specials(r());
    for i in 0..256 {
        v.push(alpha::pow2(i));
    }
    if full_weight2 {
        for i in 0..256 {
            for j in 0..i {
                v.push(alpha::pow2(i) + alpha::pow2(j));
            }
        }
    } else {
        for &i in BOUNDARY_BITS.iter() {
            for &j in BOUNDARY_BITS.iter() {
                if j < i {
                    v.push(alpha::pow2(i) + alpha::pow2(j));
                }
            }
        }
    }
    let all256 = alpha::pow2(256) - 1u32;
    let all255 = alpha::pow2(255) - 1u32;
    let comp: Vec<usize> = if full_weight2 { (0..256).collect() } else { BOUNDARY_BITS.to_vec() };
    for &i in &comp {
        v.push(&all256 - alpha::pow2(i));
        if i < 255 {
            v.push(&all255 - alpha::pow2(i));
        }
    }
    let mut rng = ctx.rng("c02.scalars");
    for _ in 0..seeded {
        v.push(alpha::rand_bits(&mut rng, 256));
        v.push(alpha::rand_below(&mut rng, r()));
        let b = 1 + rng.below(255) as usize;
        v.push(alpha::rand_bits(&mut rng, b));
    }
    alpha::dedup(v)
}
fn below_255(v: &[BigUint]) -> Vec<BigUint> {
    let lim = alpha::pow2(255);
    v.iter().filter(|k| **k < lim).cloned().collect()
}
fn repr(k: &BigUint) -> FrRepr {
    frrepr(k)
}

// ------------------------------------------------------------------------------------------------
// toy curves
// ------------------------------------------------------------------------------------------------
fn toy_paths<C: ToyCurve>(ctx: &Ctx, s_all: &[BigUint], windows: &[usize])
where
    C::P: Sync + Send,
    C::A: Sync + Send,
    C::F: Sync + Send,
{
    let name = C::NAME;
    let g = Group::<C>::build();
    let n = g.n();
    let nz: Vec<C::F> = C::F::all_elems().into_iter().filter(|x| !ff::Field::is_zero(x)).collect();
    let lambdas = vec![nz[0], nz[nz.len() / 2], nz[nz.len() - 1]];
    let reprs: Vec<FrRepr> = s_all.iter().map(repr).collect();
    let s255 = below_255(s_all);
    let reprs255: Vec<FrRepr> = s255.iter().map(repr).collect();
    let inj = ctx.injecting("C02");
    // plain paths
    let rad = [s_all.len() as u64, n as u64, 4];
    ctx.sweep(
        &format!("{}.plain", name),
        crate::infra::space(&rad),
        |i| {
            let d = unrank(i, &rad);
            json!({"path": (["mul_assign l0", "mul_assign l1", "mul_assign l2", "CurveAffine::mul"][d[2]]), "point": d[1], "k": hex(&s_all[d[0]])})
        },
        |i| {
            let d = unrank(i, &rad);
            let k = &s_all[d[0]];
            let want = g.mul_big(d[1], k);
            let got = if d[2] < 3 {
                let mut p = g.rep(d[1], &lambdas[d[2]]);
                p.mul_assign(reprs[d[0]]);
                g.abs(&p)
            } else {
                g.abs(&g.aff(d[1]).mul(reprs[d[0]]))
            };
            let mut got = got.ok_or_else(|| Fail::new(format!("{}: scalar multiplication left the curve", name)))?;
            if inj && d[2] == 3 && k.bits() == 256 && d[1] != 0 {
                got = 0;
            }
            if got != want {
                return Err(Fail::new(format!("{}: plain multiplication != [k]P (got point {}, want {})", name, got, want)));
            }
            Ok(if d[1] == 0 || k.is_zero() { "" } else if k.bits() == 256 { "k >= 2^255" } else { "plain" })
        },
    );
    // table-driven paths: tables built by the library's own precomputation, checked entry by entry
    let rad = [n as u64, 2];
    ctx.sweep(
        &format!("{}.precomp", name),
        crate::infra::space(&rad),
        |i| {
            let d = unrank(i, &rad);
            json!({"path": (["precomp_3", "precomp_256"][d[1]]), "point": d[0], "scalars": s_all.len()})
        },
        |i| {
            let d = unrank(i, &rad);
            let a = g.aff(d[0]);
            // the output buffers are NOT fresh: they hold the generator's table from an earlier precomputation
            let dirty = g.aff((1..n).max_by_key(|&j| g.order[j]).unwrap());
            if d[1] == 0 {
                let mut pre = vec![C::A::zero(); 3];
                dirty.precomp_3(&mut pre);
                a.precomp_3(&mut pre);
                for (j, e) in pre.iter().enumerate() {
                    if g.abs_aff(e) != Some(g.mul_big(d[0], &alpha::pow2(64 * (j + 1)))) {
                        return Err(Fail::new(format!("{}: precomp_3 entry {} is not [2^{}]P", name, j, 64 * (j + 1))));
                    }
                }
                for (k, kr) in s_all.iter().zip(&reprs) {
                    let got = g.abs(&a.mul_precomp_3(*kr, &pre));
                    if got != Some(g.mul_big(d[0], k)) {
                        return Err(Fail::with(format!("{}: mul_precomp_3 != [k]P", name), json!({"k": hex(k)})));
                    }
                }
            } else {
                let mut pre = vec![C::A::zero(); 256];
                dirty.precomp_256(&mut pre);
                a.precomp_256(&mut pre);
                for (j, e) in pre.iter().enumerate() {
                    let mut m = BigUint::zero();
                    for b in 0..8 {
                        if (j >> b) & 1 == 1 {
                            m += alpha::pow2(32 * b);
                        }
                    }
                    if g.abs_aff(e) != Some(g.mul_big(d[0], &m)) {
                        return Err(Fail::new(format!("{}: precomp_256 entry {} wrong", name, j)));
                    }
                }
                for (k, kr) in s_all.iter().zip(&reprs) {
                    let got = g.abs(&a.mul_precomp_256(*kr, &pre));
                    if got != Some(g.mul_big(d[0], k)) {
                        return Err(Fail::with(format!("{}: mul_precomp_256 != [k]P", name), json!({"k": hex(k)})));
                    }
                }
            }
            bump(s_all.len() as u64 - 1);
            Ok(if d[0] == 0 { "" } else { "table-driven" })
        },
    );
    // wNAF through the public API at every window (the toy group's recommended window is harness-controlled)
    let chunk = 128usize;
    let nchunks = (s255.len() + chunk - 1) / chunk;
    let rad = [nchunks as u64, n as u64, windows.len() as u64];
    ctx.sweep(
        &format!("{}.wnaf_base_then_scalar", name),
        crate::infra::space(&rad),
        |i| {
            let d = unrank(i, &rad);
            json!({"window": windows[d[2]], "point": d[1], "scalar_chunk": d[0]})
        },
        |i| {
            let d = unrank(i, &rad);
            let w = windows[d[2]];
            // big tables only for a few points
            if w > 12 && d[1] > 2 {
                return Ok("");
            }
            set_wnaf_window(w);
            let lo = d[0] * chunk;
            let hi = (lo + chunk).min(s255.len());
            let mut ctxw = Wnaf::new();
            let base = g.rep(d[1], &lambdas[1]);
            let mut wb = ctxw.base(base, 1);
            for j in lo..hi {
                let got: C::P = wb.scalar(reprs255[j]);
                if g.abs(&got) != Some(g.mul_big(d[1], &s255[j])) {
                    return Err(Fail::with(format!("{}: Wnaf base().scalar() != [k]P at window {}", name, w), json!({"k": hex(&s255[j])})));
                }
            }
            // the same table through shared(): a fresh digit buffer borrowing the table (the cross-thread API)
            {
                let mut sh = wb.shared();
                for j in (lo..hi).step_by(3) {
                    let got: C::P = sh.scalar(reprs255[j]);
                    if g.abs(&got) != Some(g.mul_big(d[1], &s255[j])) {
                        return Err(Fail::with(format!("{}: Wnaf base().shared().scalar() != [k]P at window {}", name, w), json!({"k": hex(&s255[j])})));
                    }
                }
            }
            bump((hi - lo) as u64 - 1);
            Ok(if d[1] == 0 { "" } else { "wnaf base-then-scalar" })
        },
    );
    let rad = [s255.len() as u64, n as u64, windows.len() as u64];
    ctx.sweep(
        &format!("{}.wnaf_scalar_then_base", name),
        crate::infra::space(&rad),
        |i| {
            let d = unrank(i, &rad);
            json!({"window": windows[d[2]], "point": d[1], "k": hex(&s255[d[0]])})
        },
        |i| {
            let d = unrank(i, &rad);
            let w = windows[d[2]];
            // the table is rebuilt on every call in this order: bound the work at large windows
            if w > 10 && (d[1] > 1 || d[0] % 97 != 0) {
                return Ok("");
            }
            if w > 16 && d[0] % (97 * 16) != 0 {
                return Ok("");
            }
            set_wnaf_window(w);
            let mut ctxw = Wnaf::new();
            let mut ws = ctxw.scalar(reprs255[d[0]]);
            let got: C::P = ws.base(g.rep(d[1], &lambdas[2]));
            if g.abs(&got) != Some(g.mul_big(d[1], &s255[d[0]])) {
                return Err(Fail::new(format!("{}: Wnaf scalar().base() != [k]P at window {}", name, w)));
            }
            if w <= 8 {
                // the same digits through shared(): a fresh table buffer borrowing the digits
                let got2: C::P = ws.shared().base(g.rep(d[1], &lambdas[0]));
                if g.abs(&got2) != Some(g.mul_big(d[1], &s255[d[0]])) {
                    return Err(Fail::new(format!("{}: Wnaf scalar().shared().base() != [k]P at window {}", name, w)));
                }
            }
            Ok(if d[1] == 0 || s255[d[0]].is_zero() { "" } else { "wnaf scalar-then-base" })
        },
    );
}

// ------------------------------------------------------------------------------------------------
// exponent group: the result of a generic routine on "1" is the multiplier it applies
// ------------------------------------------------------------------------------------------------
fn digits_value(d: &[i64]) -> BigInt {
    let mut acc = BigInt::zero();
    for (i, x) in d.iter().enumerate() {
        acc += BigInt::from(*x) << i;
    }
    acc
}
fn check_digits(d: &[i64], w: usize) -> Result<(), String> {
    for (i, x) in d.iter().enumerate() {
        if *x != 0 {
            if x % 2 == 0 {
                return Err(format!("even non-zero digit {} at position {}", x, i));
            }
            if x.unsigned_abs() >= (1u64 << w) {
                return Err(format!("digit {} at position {} out of range for window {}", x, i, w));
            }
            if (x.unsigned_abs() / 2) as usize >= (1usize << (w - 1)) {
                return Err(format!("digit {} indexes outside the table of window {}", x, w));
            }
        }
    }
    Ok(())
}

/// The digit conventions (odd digits, range, value, spacing) are a contract between wnaf_form and wnaf_exp, not part of the
/// property; a deviation is a finding only if the library's own wnaf_exp, fed these digits and a table from the library's
/// wnaf_table, does not multiply by the scalar (checked in the exponent group, where the multiplier is exact).
fn composition_multiplies_by(digits: &[i64], w: usize, c: &BigInt) -> bool {
    let r = std::panic::catch_unwind(|| {
        let mut table: Vec<ZGroup> = vec![];
        wnaf_table(&mut table, ZGroup::from_i64(1), w);
        wnaf_exp(&table, digits).value()
    });
    matches!(r, Ok(v) if v == *c)
}

fn zgroup_checks(ctx: &Ctx, s255: &[BigUint], windows: &[usize]) {
    let reprs: Vec<FrRepr> = s255.iter().map(repr).collect();
    let one = ZGroup::from_i64(1);
    let chunk = 128usize;
    let nchunks = (s255.len() + chunk - 1) / chunk;
    let rad = [nchunks as u64, windows.len() as u64, 2];
    ctx.sweep(
        "ZGroup.wnaf",
        crate::infra::space(&rad),
        |i| {
            let d = unrank(i, &rad);
            json!({"window": windows[d[1]], "order": (["base-then-scalar", "scalar-then-base"][d[2]]), "scalar_chunk": d[0]})
        },
        |i| {
            let d = unrank(i, &rad);
            let w = windows[d[1]];
            set_wnaf_window(w);
            let lo = d[0] * chunk;
            let hi = (lo + chunk).min(s255.len());
            let mut ctxw = Wnaf::new();
            if d[2] == 0 {
                let mut wb = ctxw.base(one, 1);
                for j in lo..hi {
                    let got: ZGroup = wb.scalar(reprs[j]);
                    if got.value() != BigInt::from(s255[j].clone()) {
                        return Err(Fail::with(format!("wNAF (window {}) multiplies by {} instead of k", w, got.value()), json!({"k": hex(&s255[j])})));
                    }
                }
            } else {
                let step = if w > 12 { 16 } else { 1 };
                for j in (lo..hi).step_by(step) {
                    let got: ZGroup = ctxw.scalar(reprs[j]).base(one);
                    if got.value() != BigInt::from(s255[j].clone()) {
                        return Err(Fail::with(format!("wNAF scalar().base() (window {}) multiplies by {} instead of k", w, got.value()), json!({"k": hex(&s255[j])})));
                    }
                }
            }
            bump((hi - lo) as u64 - 1);
            Ok("exact multiplier")
        },
    );
    // recoding of real 4-limb scalars at every window
    let rad = [s255.len() as u64, windows.len() as u64];
    ctx.sweep(
        "wnaf_form.FrRepr",
        crate::infra::space(&rad),
        |i| {
            let d = unrank(i, &rad);
            json!({"window": windows[d[1]], "k": hex(&s255[d[0]])})
        },
        |i| {
            let d = unrank(i, &rad);
            let w = windows[d[1]];
            let mut digits = vec![7i64; 3]; // stale content must be discarded
            wnaf_form(&mut digits, reprs[d[0]], w);
            let c = BigInt::from(s255[d[0]].clone());
            let conventional = check_digits(&digits, w).is_ok() && digits_value(&digits) == c;
            if !conventional && !composition_multiplies_by(&digits, w, &c) {
                return Err(Fail::new(format!("wnaf_form digits (window {}) neither follow the signed-odd-digit convention nor make wnaf_exp multiply by the scalar: {}", w, check_digits(&digits, w).err().unwrap_or_else(|| "digits do not sum to the scalar".into()))));
            }
            Ok(if s255[d[0]].is_zero() { "" } else if conventional { "recoding" } else { "recoding under another digit convention (composition exact)" })
        },
    );
    // exhaustive recoding of all small scalars with the one-limb representation
    let bits = ctx.tier.pick(14u32, 20);
    let blocks = 1u64 << (bits - 10);
    let rad = [blocks, windows.len() as u64];
    ctx.sweep(
        "wnaf_form.tiny_exhaustive",
        crate::infra::space(&rad),
        |i| {
            let d = unrank(i, &rad);
            json!({"window": windows[d[1]], "c_from": d[0] << 10, "c_to": ((d[0] + 1) << 10) - 1})
        },
        |i| {
            let d = unrank(i, &rad);
            let w = windows[d[1]];
            let mut digits = vec![];
            for c in (d[0] << 10)..((d[0] + 1) << 10) {
                wnaf_form(&mut digits, Tiny([c as u64]), w);
                let mut acc: i128 = 0;
                for (j, x) in digits.iter().enumerate() {
                    acc += (*x as i128) << j;
                }
                let conventional = check_digits(&digits, w).is_ok() && acc == c as i128;
                if !conventional && !composition_multiplies_by(&digits, w, &BigInt::from(c)) {
                    return Err(Fail::new(format!("wnaf_form(c={}, window {}): digits neither follow the signed-odd-digit convention (sum {}) nor make wnaf_exp multiply by c", c, w, acc)));
                }
            }
            bump(1023);
            Ok("all 1024 scalars of the block")
        },
    );
}

// ------------------------------------------------------------------------------------------------
// reuse histories of one Wnaf context (tree walk)
// ------------------------------------------------------------------------------------------------
#[derive(Clone, Copy, Debug)]
struct HAct {
    order: u8,  // 0 = base-then-scalar, 1 = scalar-then-base
    base: u8,
    scalar: u8,
    window: u8,
}
fn history_alphabet(windows: &[usize], nbases: usize, nscalars: usize) -> Vec<HAct> {
    let mut v = vec![];
    for order in 0..2u8 {
        for base in 0..nbases as u8 {
            for scalar in 0..nscalars as u8 {
                for &w in windows {
                    v.push(HAct { order, base, scalar, window: w as u8 });
                }
            }
        }
    }
    v
}
/// run one history on a single reused context; `bases`, `scalars` are the operand tables; returns the outputs
fn run_history<G: CurveProjective<Scalar = Fr>>(h: &[HAct], bases: &[G], scalars: &[FrRepr], set_window: &dyn Fn(usize)) -> Vec<G> {
    let mut ctxw = Wnaf::new();
    let mut out = vec![];
    for a in h {
        set_window(a.window as usize);
        let r: G = if a.order == 0 {
            ctxw.base(bases[a.base as usize], 1).scalar(scalars[a.scalar as usize])
        } else {
            ctxw.scalar(scalars[a.scalar as usize]).base(bases[a.base as usize])
        };
        out.push(r);
    }
    out
}
fn history_scalars() -> Vec<BigUint> {
    vec![BigUint::zero(), BigUint::one(), BigUint::from(0xdeadbeefu64), alpha::pow2(255) - 19u32, r() - 1u32]
}

fn zgroup_histories(ctx: &Ctx, depth: usize) {
    let windows = [2usize, 5, 9];
    let ks = history_scalars();
    let kr: Vec<FrRepr> = ks.iter().map(repr).collect();
    let bases = vec![ZGroup::from_i64(1), ZGroup::from_i64(-7), ZGroup::from_big(&alpha::pow2(300))];
    let bvals: Vec<BigInt> = bases.iter().map(|b| b.value()).collect();
    let acts = history_alphabet(&windows, bases.len(), ks.len());
    let na = acts.len() as u64;
    for len in 1..=depth {
        let rad: Vec<u64> = vec![na; len];
        ctx.sweep(
            &format!("ZGroup.wnaf_reuse.len{}", len),
            crate::infra::space(&rad),
            |i| {
                let d = unrank(i, &rad);
                json!({"history": d.iter().map(|&k| format!("{:?}", acts[k])).collect::<Vec<_>>()})
            },
            |i| {
                let d = unrank(i, &rad);
                let h: Vec<HAct> = d.iter().map(|&k| acts[k]).collect();
                let outs = run_history::<ZGroup>(&h, &bases, &kr, &|w| set_wnaf_window(w));
                for (a, o) in h.iter().zip(&outs) {
                    let want = &bvals[a.base as usize] * BigInt::from(ks[a.scalar as usize].clone());
                    // 768-bit wrap-around cannot occur: |base| <= 2^300, k < 2^255
                    if o.value() != want {
                        return Err(Fail::new(format!("reused wNAF context returned {} instead of k*B = {} (step {:?})", o.value(), want, a)));
                    }
                }
                let shrink = h.windows(2).any(|p| p[1].window < p[0].window || ks[p[1].scalar as usize].bits() < ks[p[0].scalar as usize].bits());
                Ok(if len == 1 { "fresh" } else if shrink { "reuse with shrinking table/digits" } else { "reuse" })
            },
        );
        let nh = crate::infra::space(&rad);
        ctx.add_mc(nh, nh * len as u64, nh, vec![json!({"system": "one Wnaf<ZGroup> context, history tree", "length": len, "histories": nh, "actions": na})]);
    }
}

fn toy_histories<C: ToyCurve>(ctx: &Ctx, depth: usize)
where
    C::P: Sync + Send,
    C::F: Sync + Send,
{
    let g = Group::<C>::build();
    let windows = [2usize, 4, 7];
    let ks = history_scalars();
    let kr: Vec<FrRepr> = ks.iter().map(repr).collect();
    let gen = (1..g.n()).max_by_key(|&i| g.order[i]).unwrap();
    let t3 = (1..g.n()).find(|&i| g.order[i] == 3).unwrap_or(1);
    let nz: Vec<C::F> = C::F::all_elems().into_iter().filter(|x| !ff::Field::is_zero(x)).collect();
    let bidx = [gen, t3, 0usize];
    let bases: Vec<C::P> = vec![g.rep(gen, &nz[3 % nz.len()]), g.rep(t3, &nz[0]), C::P::zero()];
    let acts = history_alphabet(&windows, bases.len(), ks.len());
    let na = acts.len() as u64;
    for len in 2..=depth {
        let rad: Vec<u64> = vec![na; len];
        ctx.sweep(
            &format!("{}.wnaf_reuse.len{}", C::NAME, len),
            crate::infra::space(&rad),
            |i| {
                let d = unrank(i, &rad);
                json!({"history": d.iter().map(|&k| format!("{:?}", acts[k])).collect::<Vec<_>>()})
            },
            |i| {
                let d = unrank(i, &rad);
                let h: Vec<HAct> = d.iter().map(|&k| acts[k]).collect();
                let outs = run_history::<C::P>(&h, &bases, &kr, &|w| set_wnaf_window(w));
                for (a, o) in h.iter().zip(&outs) {
                    let want = g.mul_big(bidx[a.base as usize], &ks[a.scalar as usize]);
                    if g.abs(o) != Some(want) {
                        return Err(Fail::new(format!("{}: reused wNAF context returned a wrong point at step {:?}", C::NAME, a)));
                    }
                }
                Ok("reuse")
            },
        );
        let nh = crate::infra::space(&rad);
        ctx.add_mc(nh, nh * len as u64, nh, vec![json!({"system": format!("one Wnaf<{}> context, history tree", C::NAME), "length": len, "histories": nh, "actions": na})]);
    }
}

// ------------------------------------------------------------------------------------------------
// real curves
// ------------------------------------------------------------------------------------------------
struct RealPt<C: RealCurve> {
    name: String,
    p: Pt<C::K>,
    pow2: Vec<Pt<C::K>>,
    in_subgroup: bool,
}
fn real_paths<C: RealCurve>(ctx: &Ctx, pts: Vec<NamedPt<C::K>>, specials: &[BigUint], hook_windows: &[usize], rec_scalar: fn(FrRepr) -> usize)
where
    C::Proj: CurveProjective<Scalar = Fr>,
{
    let name = C::NAME;
    let c = C::curve();
    // per point: [2^i]P by repeated reference doubling
    let rpts: Vec<RealPt<C>> = crate::infra::par_map(pts.len(), |i| {
        let mut pow2 = vec![pts[i].p.clone()];
        for _ in 1..256 {
            let d = c.dbl(pow2.last().unwrap());
            pow2.push(d);
        }
        RealPt { name: pts[i].name.clone(), p: pts[i].p.clone(), pow2, in_subgroup: pts[i].in_subgroup }
    });
    // scalars: (value, reference decomposition)
    #[derive(Clone)]
    enum K {
        Bits(Vec<usize>),
        Full(BigUint),
    }
    let mut ks: Vec<(BigUint, K)> = vec![];
    for i in 0..256 {
        ks.push((alpha::pow2(i), K::Bits(vec![i])));
    }
    for &i in BOUNDARY_BITS.iter() {
        for &j in BOUNDARY_BITS.iter() {
            if j < i {
                ks.push((alpha::pow2(i) + alpha::pow2(j), K::Bits(vec![i, j])));
            }
        }
    }
    for s in specials {
        ks.push((s.clone(), K::Full(s.clone())));
    }
    let refmul = |rp: &RealPt<C>, k: &K| -> Pt<C::K> {
        match k {
            K::Bits(b) => {
                let mut acc = Pt::Inf;
                for &i in b {
                    acc = c.add(&acc, &rp.pow2[i]);
                }
                acc
            }
            K::Full(v) => c.mul(&rp.p, v),
        }
    };
    let paths = ["mul_assign", "mul_assign (other representative)", "CurveAffine::mul", "mul_precomp_3", "mul_precomp_256", "Wnaf base(.,n).scalar", "Wnaf scalar(.).base"];
    // tables per point
    let tables: Vec<(Vec<C::Aff>, Vec<C::Aff>)> = crate::infra::par_map(rpts.len(), |i| {
        let a = C::aff_of(&rpts[i].p);
        // buffers that already hold another point's table (the generator's)
        let dirty = C::aff_of(&C::gen());
        let mut p3 = vec![C::Aff::zero(); 3];
        dirty.precomp_3(&mut p3);
        a.precomp_3(&mut p3);
        let mut p256 = vec![C::Aff::zero(); 256];
        dirty.precomp_256(&mut p256);
        a.precomp_256(&mut p256);
        (p3, p256)
    });
    // the tables themselves
    ctx.sweep(
        &format!("{}.precomp_tables", name),
        rpts.len() as u64,
        |i| json!({"point": rpts[i as usize].name}),
        |i| {
            let rp = &rpts[i as usize];
            let (p3, p256) = &tables[i as usize];
            for (j, e) in p3.iter().enumerate() {
                if C::pt_of_aff(e) != rp.pow2[64 * (j + 1)] {
                    return Err(Fail::new(format!("{}: precomp_3 entry {} wrong", name, j)));
                }
            }
            for (j, e) in p256.iter().enumerate() {
                let mut acc = Pt::Inf;
                for b in 0..8 {
                    if (j >> b) & 1 == 1 {
                        acc = c.add(&acc, &rp.pow2[32 * b]);
                    }
                }
                if C::pt_of_aff(e) != acc {
                    return Err(Fail::new(format!("{}: precomp_256 entry {} wrong", name, j)));
                }
            }
            bump(258);
            Ok("tables")
        },
    );
    let l2 = {
        let mut rng = ctx.rng("c02.lambda");
        let _ = rng.next();
        C::K::from_u64(3 + rng.below(1000))
    };
    let nscal = [1usize, 4, 21, 300, 100000];
    let rad = [ks.len() as u64, rpts.len() as u64];
    ctx.sweep(
        &format!("{}.paths", name),
        crate::infra::space(&rad),
        |i| {
            let d = unrank(i, &rad);
            json!({"point": rpts[d[1]].name, "k": hex(&ks[d[0]].0), "paths": paths})
        },
        |i| {
            let d = unrank(i, &rad);
            let rp = &rpts[d[1]];
            let (k, kd) = &ks[d[0]];
            let want = refmul(rp, kd);
            let kr = repr(k);
            let a = C::aff_of(&rp.p);
            let (p3, p256) = &tables[d[1]];
            let wnaf_ok = k.bits() <= 255 && rp.in_subgroup;
            for (pi, pname) in paths.iter().enumerate() {
                let got: C::Proj = match pi {
                    0 => {
                        let mut p = a.into_projective();
                        guard(|| p.mul_assign(kr)).map_err(Fail::new)?;
                        p
                    }
                    1 => {
                        let mut p = C::rep(&rp.p, &l2);
                        guard(|| p.mul_assign(kr)).map_err(Fail::new)?;
                        p
                    }
                    2 => guard(|| a.mul(kr)).map_err(Fail::new)?,
                    3 => guard(|| a.mul_precomp_3(kr, p3)).map_err(Fail::new)?,
                    4 => guard(|| a.mul_precomp_256(kr, p256)).map_err(Fail::new)?,
                    5 => {
                        if !wnaf_ok {
                            continue;
                        }
                        let ns = nscal[(d[0] + d[1]) % nscal.len()];
                        guard(|| Wnaf::new().base(C::rep(&rp.p, &l2), ns).scalar(kr)).map_err(Fail::new)?
                    }
                    _ => {
                        if !wnaf_ok {
                            continue;
                        }
                        guard(|| Wnaf::new().scalar(kr).base(a.into_projective())).map_err(Fail::new)?
                    }
                };
                if C::pt_of(&got) != want {
                    return Err(Fail::with(format!("{}: {} != [k]P", name, pname), json!({"got": C::show(&C::pt_of(&got)), "want": C::show(&want)})));
                }
            }
            bump(paths.len() as u64 - 1);
            Ok(if rp.p.is_inf() || k.is_zero() { "" } else if k.bits() == 256 { "k >= 2^255" } else if !rp.in_subgroup { "outside the subgroup (plain + table paths)" } else { "subgroup point, all paths" })
        },
    );
    // every window size on the real group through the hook (table built once per point and window)
    let sub_pts: Vec<usize> = (0..rpts.len()).filter(|&i| rpts[i].in_subgroup && !rpts[i].p.is_inf()).take(2).collect();
    let wks: Vec<usize> = (0..ks.len()).filter(|&j| ks[j].0.bits() <= 255).step_by((ks.len() / ctx.tier.pick(24, 64)).max(1)).collect();
    let rad = [hook_windows.len() as u64, sub_pts.len() as u64];
    ctx.sweep(
        &format!("{}.wnaf_all_windows", name),
        crate::infra::space(&rad),
        |i| {
            let d = unrank(i, &rad);
            json!({"window": hook_windows[d[0]], "point": rpts[sub_pts[d[1]]].name, "scalars": wks.len()})
        },
        |i| {
            let d = unrank(i, &rad);
            let w = hook_windows[d[0]];
            let rp = &rpts[sub_pts[d[1]]];
            let mut table: Vec<C::Proj> = vec![];
            wnaf_table(&mut table, C::rep(&rp.p, &l2), w);
            let mut digits = vec![];
            for &j in &wks {
                wnaf_form(&mut digits, repr(&ks[j].0), w);
                let got: C::Proj = guard(|| wnaf_exp(&table, &digits)).map_err(Fail::new)?;
                if C::pt_of(&got) != refmul(rp, &ks[j].1) {
                    return Err(Fail::with(format!("{}: wNAF at window {} != [k]P", name, w), json!({"k": hex(&ks[j].0)})));
                }
            }
            bump(wks.len() as u64 - 1);
            Ok("every window")
        },
    );
    // recommended windows
    let mut ns: Vec<usize> = (0..ctx.tier.pick(2000usize, 90000)).collect();
    for b in 0..64 {
        let p = 1usize << b;
        ns.push(p);
        ns.push(p - 1);
        ns.push(p.wrapping_add(1));
    }
    ns.push(usize::MAX);
    for t in [1usize, 3, 7, 8, 20, 43, 47, 120, 126, 260, 273, 563, 826, 1501, 1630, 3128, 4555, 7933, 62569, 84071] {
        ns.push(t);
        ns.push(t + 1);
    }
    ctx.sweep(
        &format!("{}.recommended_windows", name),
        (ns.len() + 257) as u64,
        |i| json!({"case": i}),
        |i| {
            let w = if (i as usize) < ns.len() {
                C::Proj::recommended_wnaf_for_num_scalars(ns[i as usize])
            } else {
                let bits = i as usize - ns.len();
                let k = if bits == 0 { BigUint::zero() } else { alpha::pow2(bits - 1) };
                let a = rec_scalar(repr(&k));
                let b = C::Proj::recommended_wnaf_for_scalar(repr(&k));
                if a != b {
                    return Err(Fail::new("recommended_wnaf_for_scalar inconsistent"));
                }
                a
            };
            if !(2..=22).contains(&w) {
                return Err(Fail::new(format!("{}: recommended window {} outside 2..=22", name, w)));
            }
            Ok("recommended window")
        },
    );
    // reuse histories on the real group (public API, recommended windows vary with the scalar size / count)
    let hs = history_scalars();
    let hr: Vec<FrRepr> = hs.iter().map(repr).collect();
    let hb_idx: Vec<usize> = (0..rpts.len()).filter(|&i| rpts[i].in_subgroup).take(3).collect();
    let hb: Vec<C::Proj> = hb_idx.iter().map(|&i| C::rep(&rpts[i].p, &l2)).collect();
    let hwant: Vec<Vec<Pt<C::K>>> = hb_idx.iter().map(|&i| hs.iter().map(|k| c.mul(&rpts[i].p, k)).collect()).collect();
    let acts = history_alphabet(&[0], hb.len(), hs.len());
    let na = acts.len() as u64;
    let len = 2usize;
    let rad: Vec<u64> = vec![na; len];
    ctx.sweep(
        &format!("{}.wnaf_reuse.len{}", name, len),
        crate::infra::space(&rad),
        |i| {
            let d = unrank(i, &rad);
            json!({"history": d.iter().map(|&k| format!("{:?}", acts[k])).collect::<Vec<_>>()})
        },
        |i| {
            let d = unrank(i, &rad);
            let h: Vec<HAct> = d.iter().map(|&k| acts[k]).collect();
            let outs = guard(|| run_history::<C::Proj>(&h, &hb, &hr, &|_| {})).map_err(Fail::new)?;
            for (a, o) in h.iter().zip(&outs) {
                if C::pt_of(o) != hwant[a.base as usize][a.scalar as usize] {
                    return Err(Fail::new(format!("{}: reused wNAF context returned a wrong point at step {:?}", name, a)));
                }
            }
            Ok("reuse")
        },
    );
    let nh = crate::infra::space(&rad);
    ctx.add_mc(nh, nh * len as u64, nh, vec![json!({"system": format!("one Wnaf<{}> context, history tree", name), "length": len, "histories": nh, "actions": na})]);
}

pub fn run(ctx: &Ctx) -> (&'static str, &'static str) {
    let full = !ctx.quick();
    let s_all = scalar_alphabet(ctx, full, ctx.tier.pick(40, 330));
    let s255 = below_255(&s_all);
    ctx.extra("scalar alphabet", json!({"all": s_all.len(), "below 2^255": s255.len(), "weight<=2 complete": full}));
    let windows: Vec<usize> = (2..=22).collect();
    let small_windows: Vec<usize> = if ctx.quick() { vec![2, 3, 4, 5, 8, 13, 18, 22] } else { windows.clone() };
    #[cfg(feature = "toy")]
    {
        toy_paths::<T19_4>(ctx, &s_all, &small_windows);
        if !ctx.quick() {
            let s_small = scalar_alphabet(ctx, false, 40);
            toy_paths::<T7_2>(ctx, &s_small, &[2, 3, 4, 7, 12]);
            toy_paths::<T19_5>(ctx, &s_small, &[2, 3, 4, 7, 12]);
            toy_paths::<T19X2>(ctx, &s_small, &[2, 4, 9]);
        }
    }
    #[cfg(not(feature = "toy"))]
    ctx.degraded("toy-curve multiplication paths");
    zgroup_checks(ctx, &s255, &windows);
    zgroup_histories(ctx, ctx.tier.pick(2, 3));
    #[cfg(feature = "toy")]
    {
        toy_histories::<T19_4>(ctx, 2);
    }
    #[cfg(not(feature = "toy"))]
    ctx.degraded("toy-curve wNAF reuse histories");
    // real curves
    let mut rng = ctx.rng("c02.points");
    let mut specials = alpha::scalar_specials(r());
    for _ in 0..ctx.tier.pick(6, 40) {
        specials.push(alpha::rand_bits(&mut rng, 256));
        specials.push(alpha::rand_below(&mut rng, r()));
    }
    let specials = alpha::dedup(specials);
    let pick1 = |v: Vec<NamedPt<Q1>>| -> Vec<NamedPt<Q1>> { v.into_iter().filter(|p| p.name == "O" || p.name == "g1" || p.name.starts_with("[0x") || p.name.starts_with("T3+g1") || p.name.starts_with("T3=")).collect() };
    let pick2 = |v: Vec<NamedPt<Q2>>| -> Vec<NamedPt<Q2>> { v.into_iter().filter(|p| p.name == "O" || p.name == "g2" || p.name.starts_with("[0x") || p.name.starts_with("P13+g2") || p.name.starts_with("R0 ")).collect() };
    let hook_w1: Vec<usize> = ctx.tier.pick((2..=14).collect(), (2..=22).collect());
    let hook_w2: Vec<usize> = ctx.tier.pick((2..=12).collect(), (2..=22).collect());
    real_paths::<RG1>(ctx, pick1(g1_points(&mut rng, ctx.tier.pick(1, 2), 0)), &specials, &hook_w1, |s| G1::recommended_wnaf_for_scalar(s));
    real_paths::<RG2>(ctx, pick2(g2_points(&mut rng, ctx.tier.pick(1, 2), 1)), &specials, &hook_w2, |s| G2::recommended_wnaf_for_scalar(s));
    ctx.assume("wNAF paths are compared for k < 2^255 only (documented domain); plain and table-driven paths for every 256-bit k");
    ctx.assume("on the exponent group a result equal to the integer k decides the multiplier for every group satisfying C01");
    (
        "model_checking",
        "toy curve (19,4) [thorough: also (7,2), (19,5), F_19^2]: every point x scalar alphabet (all 256-bit scalars of Hamming weight <= 2 in thorough, weight 1 + boundary pairs in quick; complements; values around r, 2^255, 2^256; per-word and per-chunk masks; seeded) x {mul_assign under 3 representatives, affine mul, precomp_3/256 tables entry by entry and their multiplications, public Wnaf API in both staging orders at every window 2..=22}; exponent group: Wnaf returns the integer k itself at every window; wnaf_form recoding of every scalar < 2^14/2^20 with a one-limb repr and of the alphabet with FrRepr; all histories of reuse of one Wnaf context up to length 2-3 over (order, base, scalar, window) alphabets; real G1/G2: single bits 0..255, boundary pairs, specials on subgroup and non-subgroup points through all paths, all windows through the hook, recommended-window range sweep; non-trivial = non-zero scalar on a non-identity point",
    )
}
