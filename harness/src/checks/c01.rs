//! C01 — G1/G2 arithmetic is the elliptic-curve group law in every case.
//! Part 1 (M1): the repository's curve_impl! on toy curves, *complete* over all projective values.
//! Part 2 (M3/M2): real G1/G2 on structured point alphabets against the big-integer reference, and a
//! stateright BFS over a register file.
use crate::infra::{unrank, Ctx, Fail};
use crate::toy::*;
use crate::toymodel::Group;
use ff::Field;
use pairing_plus::{CurveAffine, CurveProjective};
use serde_json::{json, Value};

fn showp<C: ToyCurve>(p: &C::P) -> Value {
    let (x, y, z) = p.as_tuple();
    json!(format!("({}, {}, {})", x, y, z))
}
fn showa<C: ToyCurve>(a: &C::A) -> Value {
    if a.is_zero() {
        json!("Inf")
    } else {
        let (x, y) = a.as_tuple();
        json!(format!("({}, {})", x, y))
    }
}
fn raw_eq<C: ToyCurve>(a: &C::P, b: &C::P) -> bool {
    a.as_tuple() == b.as_tuple()
}

pub fn pair_class<C: ToyCurve>(g: &Group<C>, i: usize, j: usize) -> &'static str {
    if i == 0 || j == 0 {
        "identity operand"
    } else if i == j {
        if g.order[i] == 3 {
            "P+P with 2P=-P"
        } else {
            "P+P"
        }
    } else if g.neg[i] as usize == j {
        "P+(-P)"
    } else {
        let (pi, pj) = (g.pts[i].unwrap(), g.pts[j].unwrap());
        if pi.1 == pj.1 {
            "same y, different x"
        } else {
            "generic"
        }
    }
}

pub fn toy_group_law<C: ToyCurve>(ctx: &Ctx, g: &Group<C>, v: &[(C::P, usize)], w: &[(C::A, usize)], batch_len: usize)
where
    C::P: Sync,
    C::A: Sync,
    C::F: Sync,
{
    let name = C::NAME;
    let nv = v.len() as u64;
    let nw = w.len() as u64;
    let inj = ctx.injecting("C01");
    let member = |p: &C::P, what: &str| -> Result<usize, Fail> {
        g.abs(p).ok_or_else(|| Fail::with(format!("{}: result of {} is not a point of the curve (nor Z = 0)", name, what), showp::<C>(p)))
    };
    // ---- unary
    let uops = ["double", "negate", "into_affine", "is_normalized", "is_zero", "affine_roundtrip"];
    let rad = [uops.len() as u64, nv];
    ctx.sweep(
        &format!("{}.unary", name),
        crate::infra::space(&rad),
        |i| {
            let d = unrank(i, &rad);
            json!({"op": uops[d[0]], "p": showp::<C>(&v[d[1]].0), "denotes": v[d[1]].1})
        },
        |i| {
            let d = unrank(i, &rad);
            let (p, pi) = &v[d[1]];
            match d[0] {
                0 => {
                    let mut x = *p;
                    x.double();
                    if member(&x, "double")? != g.plus(*pi, *pi) {
                        return Err(Fail::with(format!("{}: double() is not 2P", name), showp::<C>(&x)));
                    }
                }
                1 => {
                    let mut x = *p;
                    x.negate();
                    if member(&x, "negate")? != g.neg[*pi] as usize {
                        return Err(Fail::with(format!("{}: negate() is not -P", name), showp::<C>(&x)));
                    }
                }
                2 => {
                    let a = p.into_affine();
                    if g.abs_aff(&a) != Some(*pi) {
                        return Err(Fail::with(format!("{}: into_affine() changed the point", name), showa::<C>(&a)));
                    }
                    if *pi == 0 && a != C::A::zero() {
                        return Err(Fail::new(format!("{}: affine identity is not the canonical zero()", name)));
                    }
                }
                3 => {
                    let (_, _, z) = p.as_tuple();
                    let want = z.is_zero() || *z == C::F::one();
                    if p.is_normalized() != want {
                        return Err(Fail::new(format!("{}: is_normalized wrong", name)));
                    }
                }
                4 => {
                    if p.is_zero() != (*pi == 0) {
                        return Err(Fail::new(format!("{}: is_zero wrong", name)));
                    }
                }
                _ => {
                    let a = p.into_affine();
                    let back = a.into_projective();
                    if member(&back, "into_projective")? != *pi || !back.is_normalized() {
                        return Err(Fail::new(format!("{}: affine/projective round trip changed the point", name)));
                    }
                    let a2: C::A = back.into_affine();
                    if a2 != a {
                        return Err(Fail::new(format!("{}: second conversion differs", name)));
                    }
                }
            }
            Ok(if *pi == 0 { "identity" } else if p.is_normalized() { "normalized" } else { "generic representative" })
        },
    );
    // ---- binary on V x V
    let bops = ["add_assign", "sub_assign", "eq"];
    let rad = [3u64, nv, nv];
    ctx.sweep(
        &format!("{}.binary", name),
        crate::infra::space(&rad),
        |i| {
            let d = unrank(i, &rad);
            json!({"op": bops[d[0]], "p": showp::<C>(&v[d[1]].0), "q": showp::<C>(&v[d[2]].0), "denote": [v[d[1]].1, v[d[2]].1]})
        },
        |i| {
            let d = unrank(i, &rad);
            let (p, pi) = &v[d[1]];
            let (q, qi) = &v[d[2]];
            match d[0] {
                0 => {
                    let mut x = *p;
                    x.add_assign(q);
                    let mut got = member(&x, "add_assign")?;
                    if inj && *pi == *qi && *pi != 0 && !raw_eq::<C>(p, q) {
                        got = 0;
                    }
                    if got != g.plus(*pi, *qi) {
                        return Err(Fail::with(format!("{}: add_assign is not P+Q ({})", name, pair_class(g, *pi, *qi)), showp::<C>(&x)));
                    }
                    Ok(pair_class(g, *pi, *qi))
                }
                1 => {
                    let mut x = *p;
                    x.sub_assign(q);
                    if member(&x, "sub_assign")? != g.minus(*pi, *qi) {
                        return Err(Fail::with(format!("{}: sub_assign is not P-Q ({})", name, pair_class(g, *pi, g.neg[*qi] as usize)), showp::<C>(&x)));
                    }
                    Ok(pair_class(g, *pi, g.neg[*qi] as usize))
                }
                _ => {
                    if (p == q) != (pi == qi) {
                        return Err(Fail::new(format!("{}: == disagrees with equality of the denoted points", name)));
                    }
                    Ok(if pi == qi && !raw_eq::<C>(p, q) { "equal under different coordinates" } else if pi == qi { "identical" } else { "different" })
                }
            }
        },
    );
    // ---- mixed on V x W
    let mops = ["add_assign_mixed", "sub_assign_mixed"];
    let rad = [2u64, nv, nw];
    ctx.sweep(
        &format!("{}.mixed", name),
        crate::infra::space(&rad),
        |i| {
            let d = unrank(i, &rad);
            json!({"op": mops[d[0]], "p": showp::<C>(&v[d[1]].0), "q": showa::<C>(&w[d[2]].0)})
        },
        |i| {
            let d = unrank(i, &rad);
            let (p, pi) = &v[d[1]];
            let (q, qi) = &w[d[2]];
            let mut x = *p;
            let (want, cls) = if d[0] == 0 {
                x.add_assign_mixed(q);
                (g.plus(*pi, *qi), pair_class(g, *pi, *qi))
            } else {
                x.sub_assign_mixed(q);
                (g.minus(*pi, *qi), pair_class(g, *pi, g.neg[*qi] as usize))
            };
            if member(&x, mops[d[0]])? != want {
                return Err(Fail::with(format!("{}: {} wrong ({})", name, mops[d[0]], cls), showp::<C>(&x)));
            }
            Ok(cls)
        },
    );
    // ---- affine negate / conversions on W
    ctx.sweep(
        &format!("{}.affine", name),
        nw,
        |i| json!({"a": showa::<C>(&w[i as usize].0)}),
        |i| {
            let (a, ai) = &w[i as usize];
            let mut n = *a;
            n.negate();
            if g.abs_aff(&n) != Some(g.neg[*ai] as usize) {
                return Err(Fail::new(format!("{}: affine negate wrong", name)));
            }
            let mut np = a.into_projective();
            np.negate();
            if n != np.into_affine() || (*ai == 0 && n != *a) {
                return Err(Fail::new(format!("{}: the negation of an affine point does not compare equal (==) to the same point obtained by projective negation and conversion", name)));
            }
            let p = a.into_projective();
            if g.abs(&p) != Some(*ai) {
                return Err(Fail::new(format!("{}: into_projective changed the point", name)));
            }
            if p.into_affine() != *a {
                return Err(Fail::new(format!("{}: affine -> projective -> affine is not the identity", name)));
            }
            Ok(if *ai == 0 { "identity" } else { "point" })
        },
    );
    // ---- batch_normalization on all slices of length <= batch_len over V
    for len in 1..=batch_len {
        let rad: Vec<u64> = vec![nv; len];
        ctx.sweep(
            &format!("{}.batch_normalization.len{}", name, len),
            crate::infra::space(&rad),
            |i| {
                let d = unrank(i, &rad);
                json!({"slice": d.iter().map(|&k| showp::<C>(&v[k].0)).collect::<Vec<_>>()})
            },
            |i| {
                let d = unrank(i, &rad);
                let mut s: Vec<C::P> = d.iter().map(|&k| v[k].0).collect();
                C::P::batch_normalization(&mut s);
                let mut any_norm = false;
                let mut any_work = false;
                for (k, out) in d.iter().zip(s.iter()) {
                    let (orig, oi) = &v[*k];
                    if g.abs(out) != Some(*oi) {
                        return Err(Fail::with(format!("{}: batch_normalization changed a point (slice length {})", name, len), json!(s.iter().map(|p| showp::<C>(p)).collect::<Vec<_>>())));
                    }
                    if !out.is_normalized() {
                        return Err(Fail::new(format!("{}: entry not normalized after batch_normalization", name)));
                    }
                    if orig.is_normalized() {
                        // (a normalized non-identity entry has a unique normalized form, so 'same point and normalized' above says it
                        // all; how an identity entry is written is not promised)
                        any_norm = true;
                    } else {
                        any_work = true;
                    }
                }
                Ok(if any_norm && any_work { "mixed normalized / unnormalized" } else if any_work { "all unnormalized" } else { "nothing to do" })
            },
        );
    }
    // ---- long slices: every length of the grid (powers of two and their neighbours, so any block size an implementation
    // might process the slice in is crossed) x every starting offset into V x three fill patterns
    let lens = long_slice_lengths();
    let offs = nv.min(12);
    let rad: Vec<u64> = vec![lens.len() as u64, offs, 3];
    ctx.sweep(
        &format!("{}.batch_normalization.long", name),
        crate::infra::space(&rad),
        |i| {
            let d = unrank(i, &rad);
            let pat = ["cyclic through all values", "unnormalized values only", "identity except first, middle and last"][d[2]];
            json!({"length": lens[d[0]], "offset": d[1], "pattern": pat})
        },
        |i| {
            let d = unrank(i, &rad);
            let len = lens[d[0]];
            let off = d[1] * (nv as usize / offs as usize).max(1);
            let work: Vec<usize> = (0..v.len()).filter(|&k| !v[k].0.is_normalized()).collect();
            let idx: Vec<usize> = (0..len)
                .map(|j| match d[2] {
                    0 => (off + j) % v.len(),
                    1 => work[(off + j * 5) % work.len()],
                    _ => {
                        if j == 0 || j == len / 2 || j + 1 == len || j == len.saturating_sub(2) {
                            work[(off + j) % work.len()]
                        } else {
                            v.iter().position(|e| e.1 == 0).unwrap()
                        }
                    }
                })
                .collect();
            let mut s: Vec<C::P> = idx.iter().map(|&k| v[k].0).collect();
            C::P::batch_normalization(&mut s);
            for (j, (k, out)) in idx.iter().zip(s.iter()).enumerate() {
                if g.abs(out) != Some(v[*k].1) {
                    return Err(Fail::new(format!("{}: batch_normalization changed the point at index {} (slice length {})", name, j, len)));
                }
                if !out.is_normalized() {
                    return Err(Fail::new(format!("{}: entry {} not normalized after batch_normalization (slice length {})", name, j, len)));
                }
            }
            Ok(if len > 128 { "length > 128" } else if len > 16 { "length 17..128" } else { "length <= 16" })
        },
    );
}

/// slice lengths for the long batch_normalization sweeps: 2^k - 1, 2^k, 2^k + 1, 2^k + 2 up to 1026, and a few others
pub fn long_slice_lengths() -> Vec<usize> {
    let mut l = vec![4usize, 5, 6, 7, 10, 12, 20, 24, 48, 50, 96, 100, 192, 200, 300, 384, 385, 640, 641, 1000];
    for k in 3..=10 {
        let b = 1usize << k;
        l.extend([b - 1, b, b + 1, b + 2]);
    }
    l.sort();
    l.dedup();
    l
}

pub fn all_nonzero<F: ToyField>() -> Vec<F> {
    F::all_elems().into_iter().filter(|x| !x.is_zero()).collect()
}
pub fn all_pairs<F: ToyField>() -> Vec<(F, F)> {
    let e = F::all_elems();
    let mut v = vec![];
    for x in &e {
        for y in &e {
            v.push((*x, *y));
        }
    }
    v
}

fn toy_instance_full<C: ToyCurve>(ctx: &Ctx, batch_len: usize)
where
    C::P: Sync,
    C::A: Sync,
    C::F: Sync,
{
    let g = Group::<C>::build();
    let v = g.all_proj(&all_nonzero::<C::F>(), &all_pairs::<C::F>());
    let w = g.all_aff();
    ctx.extra(&format!("{} group", C::NAME), json!({"order": g.n(), "exponent": g.exponent, "projective_values": v.len(), "affine_values": w.len()}));
    toy_group_law::<C>(ctx, &g, &v, &w, batch_len);
}

pub fn run(ctx: &Ctx) -> (&'static str, &'static str) {
    #[cfg(feature = "toy")]
    {
        // complete toy instances
        toy_instance_full::<T19_4>(ctx, ctx.tier.pick(2, 3));
        toy_instance_full::<T7_2>(ctx, 3);
        toy_instance_full::<T19_5>(ctx, 2);
        if !ctx.quick() {
            toy_instance_full::<T31_5>(ctx, 2);
        }
        // F_19^2 instance (shape of G2): restricted lambdas / identity forms
        {
            let g = Group::<T19X2>::build();
            let lambdas: Vec<F19x2> = vec![Fp2::new(1, 0), Fp2::new(2, 0), Fp2::new(18, 0), Fp2::new(0, 1), Fp2::new(3, 5), Fp2::new(7, 18)];
            let ids: Vec<(F19x2, F19x2)> = vec![(Fp2::new(0, 0), Fp2::new(1, 0)), (Fp2::new(0, 0), Fp2::new(0, 0)), (Fp2::new(5, 6), Fp2::new(7, 8)), (Fp2::new(1, 0), Fp2::new(1, 0))];
            let more: Vec<F19x2> = (0..18).map(|k| Fp2::new(1 + (k * 7) % 18, (k * 5 + 2) % 19)).collect();
        let mut lambdas = lambdas;
        if !ctx.quick() {
            for l in more {
                if !lambdas.contains(&l) {
                    lambdas.push(l);
                }
            }
        }
        let lam = if ctx.quick() { &lambdas[..3] } else { &lambdas[..] };
            let v = g.all_proj(lam, &ids);
            let w = g.all_aff();
            ctx.extra("toy(19^2) group", json!({"order": g.n(), "exponent": g.exponent, "projective_values": v.len(), "affine_values": w.len()}));
            toy_group_law::<T19X2>(ctx, &g, &v, &w, 1);
        }
    }
    #[cfg(not(feature = "toy"))]
    ctx.degraded("complete toy-curve enumeration");
    crate::checks::c01real::run(ctx);
    ctx.assume("toy instances: the macro is generic over the field, so the complete toy result transfers to the branch structure of the group code; the real field arithmetic is C08/C09");
    (
        "model_checking",
        "toy curves (the repository's curve_impl! instantiated over F_7, F_19, F_31, F_19^2): ALL projective values (every point x every lambda in F^*, every identity encoding (X,Y,0)) x all operations, all pairs, all slices up to length 2-3 for batch_normalization, compared through the harness's own normalisation with the Cayley table; every result is checked to be a member of the value set again (inductive invariant, so every finite program is covered); real G1/G2: structured point alphabets (subgroup, order-3, small-order, l*r, beta-images with equal y, representatives under several lambda) x all operations against the big-integer chord-and-tangent model, and a BFS over a 3-register file; non-trivial = pair class other than 'identity operand'/'nothing to do'",
    )
}
