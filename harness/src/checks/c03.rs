//! C03 — the pairing is bilinear, non-degenerate and is the standard ate pairing.
//! C11 — products of pairings (same alphabets, shared helpers).
use crate::alpha;
use crate::conv::*;
use crate::infra::{guard, par_map, unrank, Ctx, Fail};
use crate::refmodel::*;
use ff::Field;
use num_bigint::BigUint;
use num_traits::{One, Zero};
use pairing_plus::bls12_381::{Bls12, Fq12, G1Affine, G1Prepared, G2Affine, G2Prepared};
use pairing_plus::{CurveAffine, Engine};
use serde_json::json;
use std::collections::HashMap;
use std::sync::Mutex;

/// E^(e mod r) with E = reference e(g1,g2), memoised
pub struct GtRef {
    cache: Mutex<HashMap<BigUint, Q12>>,
}
impl GtRef {
    pub fn new() -> Self {
        GtRef { cache: Mutex::new(HashMap::new()) }
    }
    pub fn pow(&self, e: &BigUint) -> Q12 {
        let e = e % r();
        if let Some(v) = self.cache.lock().unwrap().get(&e) {
            return v.clone();
        }
        let v = e_g1_g2().pow(&e);
        self.cache.lock().unwrap().insert(e, v.clone());
        v
    }
}

pub fn scalar_alphabet(ctx: &Ctx, seeded: usize) -> Vec<BigUint> {
    let mut rng = ctx.rng("c03.scalars");
    let mut v = vec![BigUint::zero(), BigUint::one(), BigUint::from(2u32), r() - 1u32, r().clone(), r() + 1u32, alpha::pow2(255) - 1u32];
    for _ in 0..seeded {
        v.push(alpha::rand_below(&mut rng, r()));
    }
    alpha::dedup(v)
}

pub fn run_c03(ctx: &Ctx) -> (&'static str, &'static str) {
    let e1c = e1();
    let e2c = e2();
    let fb1 = FixedBase::new(&e1c, &g1_gen(), 256);
    let fb2 = FixedBase::new(&e2c, &g2_gen(), 256);
    let ks = scalar_alphabet(ctx, ctx.tier.pick(5, 25));
    let p1: Vec<Pt<Q1>> = par_map(ks.len(), |i| fb1.mul(&ks[i]));
    let p2: Vec<Pt<Q2>> = par_map(ks.len(), |i| fb2.mul(&ks[i]));
    let a1: Vec<G1Affine> = p1.iter().map(g1aff_of).collect();
    let a2: Vec<G2Affine> = p2.iter().map(g2aff_of).collect();
    // model self-validation: e(g1,g2) has order r and is not 1
    let e = e_g1_g2();
    ctx.require(*e != Q12::one() && e.pow(r()) == Q12::one(), "reference e(g1,g2) is not an element of order r");
    let gt = GtRef::new();
    let inj = ctx.injecting("C03");
    let n = ks.len() as u64;
    let rad = [n, n, 3];
    ctx.sweep(
        "pairing.bilinear",
        crate::infra::space(&rad),
        |i| {
            let d = unrank(i, &rad);
            json!({"a": hex(&ks[d[0]]), "b": hex(&ks[d[1]]), "call": (["Engine::pairing", "G1Affine::pairing_with", "G2Affine::pairing_with"][d[2]])})
        },
        |i| {
            let d = unrank(i, &rad);
            let (p, qq) = (a1[d[0]], a2[d[1]]);
            let got: Fq12 = guard(|| match d[2] {
                0 => Bls12::pairing(p, qq),
                1 => p.pairing_with(&qq),
                _ => qq.pairing_with(&p),
            })
            .map_err(|m| Fail::new(format!("pairing panicked: {}", m)))?;
            let prod = (&ks[d[0]] * &ks[d[1]]) % r();
            let want = gt.pow(&prod);
            let mut gq = q12_of(&got);
            if inj && d[2] == 2 && !prod.is_zero() {
                gq = gq.sq();
            }
            if gq != want {
                return Err(Fail::new("e([a]g1,[b]g2) != e(g1,g2)^(ab) with e(g1,g2) the textbook reduced ate pairing"));
            }
            let degenerate = p1[d[0]].is_inf() || p2[d[1]].is_inf();
            if (got == Fq12::one()) != degenerate {
                return Err(Fail::new("pairing value is 1 although neither argument is the identity (or the converse)"));
            }
            Ok(if degenerate { "identity argument" } else if ks[d[0]] >= *r() || ks[d[1]] >= *r() { "scalar >= r" } else { "generic" })
        },
    );
    // the multiples computed by the library itself from raw 256-bit scalars (values >= r and >= 2^255 included)
    {
        use pairing_plus::bls12_381::{G1, G2};
        use pairing_plus::CurveProjective;
        let mut big: Vec<BigUint> = vec![BigUint::zero(), BigUint::one(), r() - 1u32, r().clone(), r() + 1u32, alpha::pow2(255) - 1u32, alpha::pow2(255) + 3u32, alpha::pow2(256) - 1u32, (r() << 1) + 5u32];
        // scalars that fill a whole number of 64-bit words exactly (2^(64j-1) .. 2^(64j)-1), one more bit, and the BLS parameter
        for j in 1..=3usize {
            big.push(alpha::pow2(64 * j - 1));
            big.push(alpha::pow2(64 * j) - 1u32);
            big.push(alpha::pow2(64 * j));
        }
        big.push(BigUint::from(0xd201000000010000u64));
        // multiples of r and their neighbours that still fit 256 bits: a proper binary prefix of the scalar is a multiple of r
        for d in [0u32, 1, 2] {
            big.push((r() << 1) + d);
            big.push((r() << 1) - d);
            big.push(r() + 2u32 + d);
        }
        big = alpha::dedup(big);
        let nb = big.len() as u64;
        let rad = [nb, nb, 2];
        ctx.sweep(
            "pairing.library_multiples",
            crate::infra::space(&rad),
            |i| {
                let d = unrank(i, &rad);
                json!({"a": hex(&big[d[0]]), "b": hex(&big[d[1]]), "multiplication": (["projective mul_assign", "affine mul"][d[2]])})
            },
            |i| {
                let d = unrank(i, &rad);
                let (ra, rb) = (frrepr(&big[d[0]]), frrepr(&big[d[1]]));
                let (p, qq): (G1Affine, G2Affine) = if d[2] == 0 {
                    let mut p = G1::one();
                    p.mul_assign(ra);
                    let mut qq = G2::one();
                    qq.mul_assign(rb);
                    (p.into_affine(), qq.into_affine())
                } else {
                    (G1Affine::one().mul(ra).into_affine(), G2Affine::one().mul(rb).into_affine())
                };
                let got = guard(|| Bls12::pairing(p, qq)).map_err(|m| Fail::new(format!("pairing panicked: {}", m)))?;
                let want = gt.pow(&((&big[d[0]] % r()) * (&big[d[1]] % r())));
                if q12_of(&got) != want {
                    return Err(Fail::new("e([a]g1,[b]g2) != e(g1,g2)^(ab) with the multiples computed by the library from raw 256-bit scalars"));
                }
                Ok(if big[d[0]].bits() == 256 || big[d[1]].bits() == 256 { "scalar >= 2^255" } else if big[d[0]] >= *r() || big[d[1]] >= *r() { "scalar >= r" } else { "canonical scalars" })
            },
        );
    }
    // full textbook evaluation on a subset, including points given by coordinates only
    let nfull = ctx.tier.pick(4usize, 64);
    let sel: Vec<(usize, usize)> = (0..nfull).map(|t| ((t * 5 + 1) % ks.len(), (t * 7 + 2) % ks.len())).collect();
    ctx.sweep(
        "pairing.textbook",
        sel.len() as u64,
        |i| json!({"P": show_pt1(&p1[sel[i as usize].0]), "Q": show_pt2(&p2[sel[i as usize].1])}),
        |i| {
            let (ia, ib) = sel[i as usize];
            let want = pairing_textbook(&p1[ia], &p2[ib]);
            let got = q12_of(&Bls12::pairing(a1[ia], a2[ib]));
            if got != want {
                return Err(Fail::new("pairing differs from the independent textbook evaluation (affine Miller loop over Fq12, conjugation, ^3(q^12-1)/r)"));
            }
            if want.pow(r()) != Q12::one() {
                return Err(Fail::new("reference: pairing value not of order dividing r (model inconsistency)"));
            }
            Ok("textbook evaluation")
        },
    );
    ctx.assume("expected values for multiples of the generators are E^(ab mod r) with E the textbook e(g1,g2): valid because the true pairing is bilinear; a subset is evaluated with the full textbook algorithm");
    (
        "exploration",
        "scalar alphabet {0, 1, 2, r-1, r, r+1, 2^255-1, seeded} for both arguments, points [a]g1 and [b]g2 computed by the reference model and injected as affine coordinates (identities included); all (a,b) pairs x the three call directions against e(g1,g2)^(ab mod r) with e(g1,g2) from an independent textbook evaluation; e = 1 exactly when an argument is the identity; a subset through the full textbook evaluation; non-trivial = neither argument the identity",
    )
}

// ------------------------------------------------------------------------------------------------
// C11
// ------------------------------------------------------------------------------------------------
pub fn run_c11(ctx: &Ctx) -> (&'static str, &'static str) {
    let e1c = e1();
    let e2c = e2();
    let fb1 = FixedBase::new(&e1c, &g1_gen(), 256);
    let fb2 = FixedBase::new(&e2c, &g2_gen(), 256);
    let mut rng = ctx.rng("c11");
    let a = alpha::rand_below(&mut rng, r());
    let b = alpha::rand_below(&mut rng, r());
    let na = r() - &a;
    // pair alphabet: (exponent of g1, exponent of g2) ; None = identity
    let pairs_exp: Vec<(Option<BigUint>, Option<BigUint>, &str)> = vec![
        (Some(BigUint::one()), Some(BigUint::one()), "(g1,g2)"),
        (Some(a.clone()), Some(b.clone()), "([a]g1,[b]g2)"),
        (Some(na.clone()), Some(b.clone()), "(-[a]g1,[b]g2)"),
        (Some(a.clone()), Some(r() - &b), "([a]g1,-[b]g2)"),
        (None, Some(BigUint::one()), "(O,g2)"),
        (Some(BigUint::one()), None, "(g1,O)"),
        (None, None, "(O,O)"),
    ];
    let pts: Vec<(G1Affine, G2Affine)> = pairs_exp
        .iter()
        .map(|(x, y, _)| {
            let p = match x {
                Some(k) => g1aff_of(&fb1.mul(k)),
                None => G1Affine::zero(),
            };
            let qq = match y {
                Some(k) => g2aff_of(&fb2.mul(k)),
                None => G2Affine::zero(),
            };
            (p, qq)
        })
        .collect();
    // prepared elements are built once and reused across every list of the run
    let prep: Vec<(G1Prepared, G2Prepared)> = pts.iter().map(|(p, qq)| (p.prepare(), qq.prepare())).collect();
    let contrib: Vec<BigUint> = pairs_exp.iter().map(|(x, y, _)| match (x, y) { (Some(k), Some(l)) => (k * l) % r(), _ => BigUint::zero() }).collect();
    let gt = GtRef::new();
    let np = pts.len() as u64;
    let inj = ctx.injecting("C11");
    let maxlen = ctx.tier.pick(4usize, 6);
    let first_ml = Bls12::miller_loop([(&prep[1].0, &prep[1].1), (&prep[0].0, &prep[0].1)].iter());
    for len in 0..=maxlen {
        let rad: Vec<u64> = vec![np; len];
        let rad2 = rad.clone();
        ctx.sweep(
            &format!("pair_lists.len{}", len),
            crate::infra::space(&rad),
            |i| {
                let d = unrank(i, &rad2);
                json!({"list": d.iter().map(|&k| pairs_exp[k].2).collect::<Vec<_>>()})
            },
            |i| {
                let d = unrank(i, &rad);
                let mut esum = BigUint::zero();
                for &k in &d {
                    esum = (esum + &contrib[k]) % r();
                }
                let want = gt.pow(&esum);
                let refs: Vec<(&G1Prepared, &G2Prepared)> = d.iter().map(|&k| (&prep[k].0, &prep[k].1)).collect();
                let ml = guard(|| Bls12::miller_loop(refs.iter())).map_err(|m| Fail::new(format!("miller_loop panicked: {}", m)))?;
                let fe = Bls12::final_exponentiation(&ml).ok_or_else(|| Fail::new("final_exponentiation of a Miller-loop output failed"))?;
                let mut gq = q12_of(&fe);
                if inj && len == 3 && d[1] == 4 {
                    gq = gq.sq();
                }
                if gq != want {
                    return Err(Fail::new("final_exponentiation(miller_loop(list)) != product of the individual pairings"));
                }
                if len == 2 {
                    let pp = guard(|| Bls12::pairing_product(pts[d[0]].0, pts[d[0]].1, pts[d[1]].0, pts[d[1]].1)).map_err(|m| Fail::new(format!("pairing_product panicked: {}", m)))?;
                    if q12_of(&pp) != want {
                        return Err(Fail::new("pairing_product != product of the two pairings"));
                    }
                }
                let ps: Vec<G1Affine> = d.iter().map(|&k| pts[k].0).collect();
                let qs: Vec<G2Affine> = d.iter().map(|&k| pts[k].1).collect();
                let mp = guard(|| Bls12::pairing_multi_product(&ps, &qs)).map_err(|m| Fail::new(format!("pairing_multi_product panicked: {}", m)))?;
                if q12_of(&mp) != want {
                    return Err(Fail::new("pairing_multi_product != product of the pairings"));
                }
                let has_id = d.iter().any(|&k| k >= 4);
                Ok(if len == 0 { "empty list" } else if esum.is_zero() && d.iter().any(|&k| k < 4) { "cancelling exponents" } else if has_id { "identity pair inside" } else { "generic list" })
            },
        );
    }
    // the same lists handed over through OTHER KINDS OF ITERATOR: the argument is any IntoIterator, and what an iterator reports
    // about its length (size_hint) is only a hint - lower bound 0, no upper bound, or a lower bound below the true length
    // are all legal.  Every list of length 0..2 (thorough 0..3) x every kind.
    {
        struct Hinted<'a> {
            items: std::vec::IntoIter<&'a (&'a G1Prepared, &'a G2Prepared)>,
            hint: (usize, Option<usize>),
        }
        impl<'a> Iterator for Hinted<'a> {
            type Item = &'a (&'a G1Prepared, &'a G2Prepared);
            fn next(&mut self) -> Option<Self::Item> {
                self.items.next()
            }
            fn size_hint(&self) -> (usize, Option<usize>) {
                self.hint
            }
        }
        const KINDS: [&str; 9] = [
            "filter(|_| true) (lower bound 0)",
            "flatten over batches of one",
            "chain of two halves",
            "skip_while(|_| false)",
            "from_fn (no hints at all)",
            "custom iterator, size_hint (0, None)",
            "custom iterator, size_hint (0, Some(usize::MAX))",
            "custom iterator, lower bound one below the length",
            "rev()",
        ];
        let kmax = ctx.tier.pick(2usize, 3);
        let mut lists: Vec<Vec<usize>> = vec![];
        for len in 0..=kmax {
            let rad: Vec<u64> = vec![np; len];
            for i in 0..crate::infra::space(&rad) {
                lists.push(unrank(i, &rad));
            }
        }
        let rad = [KINDS.len() as u64, lists.len() as u64];
        ctx.sweep(
            "pair_lists.iterator_kinds",
            crate::infra::space(&rad),
            |i| {
                let d = unrank(i, &rad);
                json!({"iterator": KINDS[d[0]], "list": lists[d[1]].iter().map(|&k| pairs_exp[k].2).collect::<Vec<_>>()})
            },
            |i| {
                let d = unrank(i, &rad);
                let l = &lists[d[1]];
                let mut esum = BigUint::zero();
                for &k in l {
                    esum = (esum + &contrib[k]) % r();
                }
                let want = gt.pow(&esum);
                let refs: Vec<(&G1Prepared, &G2Prepared)> = l.iter().map(|&k| (&prep[k].0, &prep[k].1)).collect();
                let n = refs.len();
                let ml = guard(|| match d[0] {
                    0 => Bls12::miller_loop(refs.iter().filter(|_| true)),
                    1 => {
                        let batches: Vec<Vec<(&G1Prepared, &G2Prepared)>> = refs.iter().map(|p| vec![*p]).collect();
                        Bls12::miller_loop(batches.iter().flatten())
                    }
                    2 => Bls12::miller_loop(refs[..n / 2].iter().chain(refs[n / 2..].iter())),
                    3 => Bls12::miller_loop(refs.iter().skip_while(|_| false)),
                    4 => {
                        let mut it = refs.iter();
                        Bls12::miller_loop(std::iter::from_fn(move || it.next()))
                    }
                    5 => Bls12::miller_loop(Hinted { items: refs.iter().collect::<Vec<_>>().into_iter(), hint: (0, None) }),
                    6 => Bls12::miller_loop(Hinted { items: refs.iter().collect::<Vec<_>>().into_iter(), hint: (0, Some(usize::MAX)) }),
                    7 => Bls12::miller_loop(Hinted { items: refs.iter().collect::<Vec<_>>().into_iter(), hint: (n.saturating_sub(1), None) }),
                    _ => {
                        let rv: Vec<(&G1Prepared, &G2Prepared)> = refs.iter().rev().cloned().collect();
                        Bls12::miller_loop(rv.iter().rev())
                    }
                })
                .map_err(|m| Fail::new(format!("miller_loop panicked: {}", m)))?;
                let fe = Bls12::final_exponentiation(&ml).ok_or_else(|| Fail::new("final_exponentiation of a Miller-loop output failed"))?;
                if q12_of(&fe) != want {
                    return Err(Fail::new(format!("final_exponentiation(miller_loop(list)) != product of the individual pairings when the list arrives through {}", KINDS[d[0]])));
                }
                Ok(if n == 0 { "empty list" } else { "list through another kind of iterator" })
            },
        );
    }
    // longer lists with an identity at each position
    for len in [8usize, 9] {
        ctx.sweep(
            &format!("pair_lists.len{}_identity_positions", len),
            (3 * len) as u64,
            |i| json!({"len": len, "identity_at": i / 3, "which": (["(O,g2)", "(g1,O)", "(O,O)"][(i % 3) as usize])}),
            |i| {
                let pos = (i / 3) as usize;
                let idk = 4 + (i % 3) as usize;
                let d: Vec<usize> = (0..len).map(|t| if t == pos { idk } else { t % 4 }).collect();
                let mut esum = BigUint::zero();
                for &k in &d {
                    esum = (esum + &contrib[k]) % r();
                }
                let refs: Vec<(&G1Prepared, &G2Prepared)> = d.iter().map(|&k| (&prep[k].0, &prep[k].1)).collect();
                let ml = guard(|| Bls12::miller_loop(refs.iter())).map_err(|m| Fail::new(format!("miller_loop panicked: {}", m)))?;
                let fe = Bls12::final_exponentiation(&ml).ok_or_else(|| Fail::new("final_exponentiation failed"))?;
                if q12_of(&fe) != gt.pow(&esum) {
                    return Err(Fail::new(format!("list of {} pairs with an identity at position {} gives a wrong product", len, pos)));
                }
                Ok("long list with identity")
            },
        );
    }
    // long lists (internal batching boundaries): lengths around 16, 32, 64 through every entry point, generic and
    // cancelling patterns, an identity in the middle
    {
        let lens: Vec<usize> = ctx.tier.pick(vec![15, 16, 17, 18, 31, 32, 33, 34, 64, 65], vec![15, 16, 17, 18, 19, 31, 32, 33, 34, 47, 48, 49, 63, 64, 65, 96, 127, 128, 129, 256, 257]);
        let rad = [lens.len() as u64, 4];
        ctx.sweep(
            "pair_lists.long",
            crate::infra::space(&rad),
            |i| {
                let d = unrank(i, &rad);
                json!({"len": lens[d[0]], "pattern": (["cyclic non-identity pairs", "cancelling: ([a]g1,[b]g2) and (-[a]g1,[b]g2) alternate", "cyclic with an identity pair in the middle", "cancelling on the G2 side: ([a]g1,[b]g2) and ([a]g1,-[b]g2) alternate"][d[1]])})
            },
            |i| {
                let d = unrank(i, &rad);
                let len = lens[d[0]];
                let idx: Vec<usize> = (0..len)
                    .map(|t| match d[1] {
                        0 => t % 4,
                        1 => 1 + (t % 2),
                        3 => 1 + 2 * (t % 2),
                        _ => {
                            if t == len / 2 {
                                4 + (t % 2)
                            } else {
                                t % 4
                            }
                        }
                    })
                    .collect();
                let mut esum = BigUint::zero();
                for &k in &idx {
                    esum = (esum + &contrib[k]) % r();
                }
                let want = gt.pow(&esum);
                let refs: Vec<(&G1Prepared, &G2Prepared)> = idx.iter().map(|&k| (&prep[k].0, &prep[k].1)).collect();
                let ml = guard(|| Bls12::miller_loop(refs.iter())).map_err(|m| Fail::new(format!("miller_loop panicked: {}", m)))?;
                let fe = Bls12::final_exponentiation(&ml).ok_or_else(|| Fail::new("final_exponentiation failed"))?;
                if q12_of(&fe) != want {
                    return Err(Fail::new(format!("Miller loop over {} pairs + final exponentiation != product of the pairings", len)));
                }
                let ps: Vec<G1Affine> = idx.iter().map(|&k| pts[k].0).collect();
                let qs: Vec<G2Affine> = idx.iter().map(|&k| pts[k].1).collect();
                let mp = guard(|| Bls12::pairing_multi_product(&ps, &qs)).map_err(|m| Fail::new(format!("pairing_multi_product panicked: {}", m)))?;
                if q12_of(&mp) != want {
                    return Err(Fail::new(format!("pairing_multi_product over {} pairs != product of the pairings", len)));
                }
                Ok(if (d[1] == 1 || d[1] == 3) && len % 2 == 0 { "long cancelling list" } else { "long list" })
            },
        );
    }
    // preparation does not depend on what was prepared before on the same thread: every sequence of up to 3 preparations over
    // {g2, [b]g2, -[b]g2, O} (each sequence on a thread of its own), the last one compared - through a Miller loop against g1,
    // bit for bit - with the same point prepared first thing on a fresh thread
    {
        let g2s: Vec<G2Affine> = vec![pts[0].1, pts[1].1, pts[3].1, G2Affine::zero()];
        let names = ["g2", "[b]g2", "-[b]g2", "O"];
        let g1p = pts[0].0;
        let alone: Vec<Fq12> = g2s
            .iter()
            .map(|qq| {
                let qq = *qq;
                std::thread::spawn(move || Bls12::miller_loop([(&g1p.prepare(), &qq.prepare())].iter())).join().expect("harness: preparing on a fresh thread failed")
            })
            .collect();
        let mut seqs: Vec<Vec<usize>> = vec![];
        for len in 1..=3usize {
            let rad: Vec<u64> = vec![4; len];
            for i in 0..crate::infra::space(&rad) {
                seqs.push(unrank(i, &rad));
            }
        }
        ctx.sweep(
            "prepare_history",
            seqs.len() as u64,
            |i| json!({"prepared_in_order": seqs[i as usize].iter().map(|&k| names[k]).collect::<Vec<_>>()}),
            |i| {
                let sq = seqs[i as usize].clone();
                let g2s = g2s.clone();
                let got = std::thread::spawn(move || {
                    let mut last = None;
                    for &k in &sq {
                        last = Some(g2s[k].prepare());
                    }
                    Bls12::miller_loop([(&g1p.prepare(), &last.unwrap())].iter())
                })
                .join()
                .map_err(|_| Fail::new("preparing a G2 point panicked"))?;
                let k = *seqs[i as usize].last().unwrap();
                if got != alone[k] {
                    return Err(Fail::new(format!("G2 prepare of {} depends on what was prepared before it on the same thread", names[k])));
                }
                Ok(if seqs[i as usize].len() > 1 { "history" } else { "" })
            },
        );
    }
    // prepared elements are unchanged by use: the first evaluation is reproduced bit for bit at the end
    ctx.sweep("prepared_reuse", 1, |_| json!({"check": "first Miller loop re-evaluated after all other uses"}), |_| {
        let again = Bls12::miller_loop([(&prep[1].0, &prep[1].1), (&prep[0].0, &prep[0].1)].iter());
        if again != first_ml {
            return Err(Fail::new("re-using prepared elements changed a later result"));
        }
        Ok("reuse")
    });
    ctx.assume("expected values E^(sum a_i b_i mod r) with E the reference e(g1,g2) (C03 ties the single pairing to the textbook evaluation)");
    (
        "exploration",
        "ALL lists of length 0..4 (quick) / 0..6 (thorough) over the pair alphabet {(g1,g2), ([a]g1,[b]g2), (-[a]g1,[b]g2), ([a]g1,-[b]g2), (O,g2), (g1,O)} - which contains cancelling combinations and identities at every position - through final_exponentiation(miller_loop(list)), pairing_product (length 2) and pairing_multi_product against e(g1,g2)^(sum a_i b_i); lists of length 8 and 9 with an identity pair at each position; long lists (15..18, 31..34, 64, 65; thorough up to 257) in generic, cancelling and identity-in-the-middle patterns through the Miller loop and pairing_multi_product; the same prepared elements are reused by every list and the first Miller loop is reproduced bit for bit at the end; non-trivial = non-empty list",
    )
}
