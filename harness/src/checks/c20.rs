//! C20 — all operations are deterministic and independent of concurrent use.
//! (a) histories: every sequence of operation instances up to a length bound, each output compared bit for bit
//!     with the output of the same instance run first in a fresh process; (b) schedules: small multi-thread
//!     harnesses that share wNAF tables / digit strings / prepared elements / tables / input bytes, explored
//!     under ALL schedules with a bounded number of preemptions on real OS threads.
use crate::conv::*;
use crate::infra::{Ctx, Fail};
use crate::refmodel::*;
use crate::sched::{explore, Harness, RunOut};
use ff::{Field, PrimeField, SqrtField};
use num_bigint::BigUint;
use pairing_plus::bls12_381::{Bls12, Fq, Fq12, Fq2, Fr, FrRepr, G1Affine, G1Compressed, G2Affine, G2Prepared, G2Uncompressed, G1, G2};
use pairing_plus::hash_to_curve::HashToCurve;
use pairing_plus::hash_to_field::ExpandMsgXmd;
use pairing_plus::serdes::SerDes;
use pairing_plus::{CurveAffine, CurveProjective, EncodedPoint, Engine, Wnaf};
use rand_core::SeedableRng;
use serde_json::json;

// ---- raw (bit-level) observations
fn raw_fq(x: &Fq, out: &mut Vec<u8>) {
    // the in-memory Montgomery limbs, not a canonicalised value
    let p = x as *const Fq as *const u8;
    out.extend_from_slice(unsafe { std::slice::from_raw_parts(p, std::mem::size_of::<Fq>()) });
}
fn raw_fq2(x: &Fq2, out: &mut Vec<u8>) {
    raw_fq(&x.c0, out);
    raw_fq(&x.c1, out);
}
fn raw_g1(p: &G1) -> Vec<u8> {
    let mut v = vec![];
    let (x, y, z) = p.as_tuple();
    raw_fq(x, &mut v);
    raw_fq(y, &mut v);
    raw_fq(z, &mut v);
    v
}
fn raw_g2(p: &G2) -> Vec<u8> {
    let mut v = vec![];
    let (x, y, z) = p.as_tuple();
    raw_fq2(x, &mut v);
    raw_fq2(y, &mut v);
    raw_fq2(z, &mut v);
    v
}
fn raw_fq12(f: &Fq12) -> Vec<u8> {
    let mut v = vec![];
    for h in [&f.c0, &f.c1] {
        for c in [&h.c0, &h.c1, &h.c2] {
            raw_fq2(c, &mut v);
        }
    }
    v
}
fn k(n: u64) -> FrRepr {
    // fixed "random-looking" scalars
    let x = (BigUint::from(n) * big("9e3779b97f4a7c15f39cc0605cedc8341082276bf3a27251f86c6a11d0c18e95")) % r();
    frrepr(&x)
}
fn g1() -> G1 {
    G1::one()
}
fn g2() -> G2 {
    G2::one()
}

pub const N_OPS: usize = 19;
pub const OP_NAMES: [&str; N_OPS] = [
    "G1 add/double/negate chain",
    "G1 mul_assign",
    "G2 mul_assign",
    "G1 wNAF, one context reused (base-then-scalar twice)",
    "G2 wNAF scalar-then-base",
    "G1 precomp_256 + mul_precomp_256",
    "G1 sum_of_products (8 terms, repeated bases)",
    "G2Prepared::from_affine(Q)",
    "G2Prepared::from_affine(-Q)",
    "pairing(P, Q)",
    "miller_loop over two pairs + final_exponentiation",
    "encode/decode G1 compressed, G2 uncompressed",
    "hash_to_curve G1, encode_to_curve G2, hash_to_field Fr (requests ending in a partial block)",
    "serialize/deserialize G2, Fr, Fq12",
    "G1::random under a fixed-seed xorshift",
    "Fq sqrt, Fq2 sqrt, Fq12 inverse",
    "G1 sum_of_products rejecting a scalar >= 2^255 (the call panics; the panic is caught)",
    "hash_to_field beyond the 255-block limit (the call aborts; the panic is caught)",
    "checked decoding of REJECTED encodings (compressed G2 and G1 curve points outside the subgroup)",
];
/// one operation instance on fixed operands; returns its bit-level output
pub fn run_op(i: usize) -> Vec<u8> {
    match i {
        0 => {
            let mut a = g1();
            a.double();
            let mut b = a;
            b.add_assign(&g1());
            b.negate();
            a.add_assign(&b);
            a.add_assign_mixed(&g1().into_affine());
            raw_g1(&a)
        }
        1 => {
            let mut a = g1();
            a.mul_assign(k(1));
            raw_g1(&a)
        }
        2 => {
            let mut a = g2();
            a.mul_assign(k(2));
            raw_g2(&a)
        }
        3 => {
            let mut w = Wnaf::new();
            let mut out = vec![];
            let r1: G1 = w.base(g1(), 3).scalar(k(3));
            out.extend(raw_g1(&r1));
            let r2: G1 = w.base(r1, 1).scalar(k(4));
            out.extend(raw_g1(&r2));
            out
        }
        4 => {
            let mut w = Wnaf::new();
            let r: G2 = w.scalar(k(5)).base(g2());
            raw_g2(&r)
        }
        5 => {
            let a = g1().into_affine();
            let mut pre = vec![G1Affine::zero(); 256];
            a.precomp_256(&mut pre);
            raw_g1(&a.mul_precomp_256(k(6), &pre))
        }
        6 => {
            let mut pts = vec![];
            let mut p = g1();
            for j in 0..8 {
                pts.push(p.into_affine());
                // the same base occurs more than once (positions 0, 3, 6 and 1, 5)
                if j != 2 && j != 4 && j != 5 {
                    p.double();
                } else if j == 2 {
                    p = g1();
                } else if j == 4 {
                    p = g1();
                    p.double();
                } else {
                    p = g1();
                }
            }
            let ks: Vec<[u64; 4]> = (0..8).map(|j| k(10 + j).0).collect();
            let refs: Vec<&[u64; 4]> = ks.iter().collect();
            raw_g1(&G1Affine::sum_of_products(&pts, &refs))
        }
        7 | 8 => {
            let mut q = g2();
            q.mul_assign(k(7));
            let mut qa = q.into_affine();
            if i == 8 {
                qa.negate();
            }
            let prep = G2Prepared::from_affine(qa);
            // observable through a Miller loop against the generator
            let f = Bls12::miller_loop([(&G1Affine::one().prepare(), &prep)].iter());
            raw_fq12(&f)
        }
        9 => raw_fq12(&Bls12::pairing(g1().into_affine(), g2().into_affine())),
        10 => {
            let mut p2 = g1();
            p2.mul_assign(k(8));
            let a = (G1Affine::one().prepare(), G2Affine::one().prepare());
            let b = (p2.into_affine().prepare(), G2Affine::one().prepare());
            let f = Bls12::miller_loop([(&a.0, &a.1), (&b.0, &b.1)].iter());
            raw_fq12(&Bls12::final_exponentiation(&f).unwrap())
        }
        11 => {
            let mut out = vec![];
            let c = G1Compressed::from_affine(g1().into_affine());
            out.extend_from_slice(c.as_ref());
            out.extend(raw_g1(&c.into_affine().unwrap().into_projective()));
            let u = G2Uncompressed::from_affine(g2().into_affine());
            out.extend_from_slice(u.as_ref());
            out.extend(raw_g2(&u.into_affine().unwrap().into_projective()));
            out
        }
        12 => {
            let mut out = raw_g1(&<G1 as HashToCurve<ExpandMsgXmd<sha2::Sha256>>>::hash_to_curve(b"determinism", b"QUUX-V01-CS02-with-BLS12381G1_XMD:SHA-256_SSWU_RO_"));
            out.extend(raw_g2(&<G2 as HashToCurve<ExpandMsgXmd<sha2::Sha256>>>::encode_to_curve(b"determinism", b"QUUX-V01-CS02-with-BLS12381G2_XMD:SHA-256_SSWU_NU_")));
            // requests that end in a partial hash block (48 and 144 bytes of SHA-256 output, 33 bytes of SHA-512 output)
            for cnt in [1usize, 3] {
                for x in pairing_plus::hash_to_field::hash_to_field::<Fr, ExpandMsgXmd<sha2::Sha256>>(b"determinism", b"QUUX-V01-CS02-with-suite", cnt) {
                    let p = &x as *const Fr as *const u8;
                    out.extend_from_slice(unsafe { std::slice::from_raw_parts(p, std::mem::size_of::<Fr>()) });
                }
            }
            out.extend(<ExpandMsgXmd<sha2::Sha512> as pairing_plus::hash_to_field::ExpandMsg>::expand_message(b"determinism", b"QUUX-V01-CS02-with-suite", 33));
            out
        }
        13 => {
            let mut buf = vec![];
            let mut q = g2();
            q.mul_assign(k(9));
            q.serialize(&mut buf, true).unwrap();
            let back = G2::deserialize(&mut &buf[..], true).unwrap();
            let mut out = raw_g2(&back);
            let s = Fr::from_repr(k(20)).unwrap();
            let mut b2 = vec![];
            s.serialize(&mut b2, true).unwrap();
            out.extend_from_slice(&b2);
            let f = Bls12::pairing(g1().into_affine(), g2().into_affine());
            let mut b3 = vec![];
            f.serialize(&mut b3, false).unwrap();
            out.extend(raw_fq12(&Fq12::deserialize(&mut &b3[..], false).unwrap()));
            out
        }
        14 => {
            let mut rng = rand_xorshift::XorShiftRng::from_seed([7u8; 16]);
            raw_g1(&G1::random(&mut rng))
        }
        16 => {
            // documented precondition violated on the SECOND component, after the first was already processed
            let pts = vec![g1().into_affine(), { let mut p = g1(); p.double(); p.into_affine() }, { let mut p = g1(); p.negate(); p.into_affine() }];
            let k0 = frrepr(&(crate::alpha::pow2(254) + crate::alpha::pow2(253) + BigUint::from(5u32))).0;
            let k1 = frrepr(&(crate::alpha::pow2(255) + BigUint::from(1u32))).0;
            let k2 = k(33).0;
            let r = std::panic::catch_unwind(|| G1Affine::sum_of_products(&pts, &[&k0, &k1, &k2]));
            match r {
                Ok(p) => raw_g1(&p),
                Err(_) => b"PANICKED".to_vec(),
            }
        }
        18 => {
            // the first x = k (k = 1, 2, ...) over which the curve has a point: such a point is outside the subgroup (the
            // verdict is part of the output, whatever it is); chosen by field arithmetic, not by calling a decoder
            let mut out = vec![];
            let mut k2 = 1u64;
            let x2 = loop {
                let x = Fq2 { c0: Fq::from_repr(fqrepr(&BigUint::from(k2))).unwrap(), c1: Fq::zero() };
                let mut rhs = x;
                rhs.square();
                rhs.mul_assign(&x);
                let four = Fq::from_repr(fqrepr(&BigUint::from(4u32))).unwrap();
                rhs.add_assign(&Fq2 { c0: four, c1: four });
                if rhs.sqrt().is_some() {
                    break k2;
                }
                k2 += 1;
            };
            let mut e2 = pairing_plus::bls12_381::G2Compressed::empty();
            e2.as_mut()[0] = 0x80;
            e2.as_mut()[95] = x2 as u8;
            match e2.into_affine() {
                Ok(a) => {
                    out.extend_from_slice(b"OK");
                    out.extend(raw_g2(&a.into_projective()));
                }
                Err(e) => out.extend_from_slice(format!("ERR {:?};", e).as_bytes()),
            }
            let mut k1 = 1u64;
            let x1 = loop {
                let x = Fq::from_repr(fqrepr(&BigUint::from(k1))).unwrap();
                let mut rhs = x;
                rhs.square();
                rhs.mul_assign(&x);
                rhs.add_assign(&Fq::from_repr(fqrepr(&BigUint::from(4u32))).unwrap());
                if rhs.sqrt().is_some() {
                    break k1;
                }
                k1 += 1;
            };
            let mut e1 = G1Compressed::empty();
            e1.as_mut()[0] = 0x80;
            e1.as_mut()[47] = x1 as u8;
            match e1.into_affine() {
                Ok(a) => {
                    out.extend_from_slice(b"OK");
                    out.extend(raw_g1(&a.into_projective()));
                }
                Err(e) => out.extend_from_slice(format!("ERR {:?};", e).as_bytes()),
            }
            out
        }
        17 => {
            let r = std::panic::catch_unwind(|| pairing_plus::hash_to_field::hash_to_field::<Fq, ExpandMsgXmd<sha2::Sha256>>(b"msg", b"dst", 200));
            match r {
                Ok(v) => {
                    let mut o = vec![];
                    for x in v.iter().take(2) {
                        raw_fq(x, &mut o);
                    }
                    o
                }
                Err(_) => b"PANICKED".to_vec(),
            }
        }
        _ => {
            let mut out = vec![];
            let x = Fq::from_repr(fqrepr(&BigUint::from(9u32))).unwrap();
            raw_fq(&x.sqrt().unwrap(), &mut out);
            let mut y = Fq2 { c0: x, c1: x };
            y.square();
            raw_fq2(&y.sqrt().unwrap(), &mut out);
            let f = Bls12::pairing(g1().into_affine(), g2().into_affine());
            out.extend(raw_fq12(&f.inverse().unwrap()));
            out
        }
    }
}
pub fn fnv(b: &[u8]) -> u64 {
    let mut h: u64 = 0xcbf29ce484222325;
    for x in b {
        h = (h ^ *x as u64).wrapping_mul(0x100000001b3);
    }
    h
}
/// operation instances used by the free-running pass (cheap ones, every code area)
pub const STRESS_OPS: [usize; 12] = [1, 2, 0, 3, 4, 6, 7, 8, 11, 12, 13, 15];
/// child mode: 16 free-running threads execute the same operation instance at the same time (released together by a
/// barrier), for every instance in a rotation chosen by `seed`, as the FIRST library use of a fresh process.
pub fn stress_child(seed: usize) {
    use std::sync::{Arc, Barrier};
    let n = 16;
    let barrier = Arc::new(Barrier::new(n));
    let order: Vec<usize> = (0..STRESS_OPS.len()).map(|j| STRESS_OPS[(j + seed) % STRESS_OPS.len()]).collect();
    let hs: Vec<_> = (0..n)
        .map(|t| {
            let barrier = barrier.clone();
            let order = order.clone();
            std::thread::spawn(move || {
                let mut lines = vec![];
                for &op in &order {
                    barrier.wait();
                    // a small stagger so that some threads enter while others are in the middle of the call
                    for _ in 0..(t * 3000) {
                        std::hint::spin_loop();
                    }
                    let out = std::panic::catch_unwind(|| run_op(op)).unwrap_or_else(|_| b"PANIC".to_vec());
                    lines.push(format!("{} {} {:016x}", t, op, fnv(&out)));
                }
                lines
            })
        })
        .collect();
    for h in hs {
        for l in h.join().unwrap_or_default() {
            println!("{}", l);
        }
    }
}

fn free_running(ctx: &Ctx, base: &[Vec<u8>]) {
    let sub = "free_running_sampling";
    if !ctx.selected(sub) {
        return;
    }
    ctx.trace("free-running pass");
    let rounds = ctx.tier.pick(6usize, 48);
    let exe = match std::env::current_exe() {
        Ok(e) => e,
        Err(_) => return,
    };
    let only = ctx.replay_index(sub);
    let mut evals = 0u64;
    for s in 0..rounds {
        if let Some(o) = only {
            if o != s as u64 {
                continue;
            }
        }
        let o = match std::process::Command::new(&exe).arg("__c20_stress").arg(s.to_string()).output() {
            Ok(o) => o,
            Err(_) => {
                ctx.machinery("could not run the free-running child");
                return;
            }
        };
        let text = String::from_utf8_lossy(&o.stdout).to_string();
        let mut seen = 0;
        for l in text.lines() {
            let f: Vec<&str> = l.split_whitespace().collect();
            if f.len() != 3 {
                continue;
            }
            let (t, op, h) = (f[0], f[1].parse::<usize>().unwrap_or(0), u64::from_str_radix(f[2], 16).unwrap_or(0));
            seen += 1;
            evals += 1;
            if h != fnv(&base[op]) {
                ctx.violation(sub, s as u64, Fail::with(format!("free-running pass (sampling): thread {} got different bits from '{}' while 15 other threads executed the same call concurrently as first use in a fresh process", t, OP_NAMES[op]), json!({"child_seed": s, "op": op})));
                ctx.count(sub, evals, evals, false, None);
                return;
            }
        }
        if seen != 16 * STRESS_OPS.len() {
            ctx.machinery(format!("free-running child {} produced {} results instead of {}", s, seen, 16 * STRESS_OPS.len()));
            return;
        }
    }
    ctx.count(sub, evals, evals, false, Some(json!({"kind": "SAMPLING, not exhaustive: 16 real threads released together by a barrier, no scheduler", "child_processes": rounds, "ops_per_thread": STRESS_OPS.len()})));
}

/// thorough only: the free-running harness of /verif/miri_c20 under Miri (data-race / UB detector).  A reported data
/// race or undefined behaviour is a violation; an unavailable toolchain is a note, never a verdict.
fn miri_pass(ctx: &Ctx) {
    let sub = "miri_free_running";
    if !ctx.selected(sub) || ctx.quick() {
        return;
    }
    ctx.trace("miri pass");
    let root = crate::infra::verif_root();
    let out = std::process::Command::new("sh")
        .arg("-c")
        .arg(format!(
            "cd {root}/miri_c20 && CARGO_TARGET_DIR=/verif/target/miri MIRIFLAGS='-Zmiri-disable-isolation -Zmiri-ignore-leaks' timeout 2400 cargo +nightly miri run --offline 2>&1 | grep -v '^warning' | tail -60",
            root = root
        ))
        .output();
    match out {
        Err(e) => ctx.note(format!("Miri pass not run: {}", e)),
        Ok(o) => {
            let text = String::from_utf8_lossy(&o.stdout).to_string();
            if text.contains("miri pass ok") {
                ctx.count(sub, 1, 1, false, Some(json!({"kind": "SAMPLING: one Miri execution of 3 threads sharing a wNAF table and entering the same calls together", "result": "no data race, no undefined behaviour"})));
            } else if text.contains("Data race detected") || text.contains("Undefined Behavior") || text.contains("differs under concurrency") || text.contains("gives a different result") {
                let line = text.lines().find(|l| l.contains("Data race") || l.contains("Undefined Behavior") || l.contains("panicked")).unwrap_or("").to_string();
                ctx.violation(sub, 0, Fail::with(format!("Miri (free-running pass, sampling): {}", line.trim()), json!({"miri_output_tail": text.lines().rev().take(25).collect::<Vec<_>>()})));
                ctx.count(sub, 1, 1, false, None);
            } else {
                ctx.note(format!("Miri pass inconclusive (toolchain unavailable or timeout); tail: {}", text.lines().rev().take(3).collect::<Vec<_>>().join(" | ")));
            }
        }
    }
}

/// Synchronisation-level schedule exploration on the INSTRUMENTED copy of the subject (binary `ppsync`, built by run.sh from
/// /verif/syncshim + /verif/harness_sync): every std::sync / std::thread use in the subject's source is a scheduling point of a
/// baton scheduler; 2-3 threads x 2-3 operation instances per harness, all schedules within the preemption bound.
fn sync_pass(ctx: &Ctx) {
    let sub = "sync_schedules";
    if !ctx.selected(sub) {
        return;
    }
    ctx.trace("sync-level schedules");
    let exe = match std::env::current_exe().ok().and_then(|e| e.parent().map(|d| d.join("ppsync"))) {
        Some(e) => e,
        None => return ctx.degraded("sync_schedules: cannot locate the harness directory"),
    };
    if !exe.exists() {
        let why = std::fs::read_to_string(exe.with_file_name("ppsync.status")).unwrap_or_else(|_| "ppsync was not built".to_string());
        ctx.degraded(&format!("sync_schedules not run: the instrumented copy of the subject did not build ({})", why.lines().next().unwrap_or("").trim()));
        return;
    }
    let out = match std::process::Command::new(&exe).arg(ctx.tier.name()).output() {
        Ok(o) => o,
        Err(e) => return ctx.machinery(format!("sync_schedules: cannot run ppsync: {}", e)),
    };
    let text = String::from_utf8_lossy(&out.stdout).to_string();
    let mut done = false;
    let mut harnesses = 0u64;
    let mut schedules = 0u64;
    let mut max_sync = 0u64;
    let mut max_threads = 0u64;
    let mut samples = vec![];
    for line in text.lines() {
        let v: serde_json::Value = match serde_json::from_str(line) {
            Ok(v) => v,
            Err(_) => continue,
        };
        match v["kind"].as_str().unwrap_or("") {
            "harness" => {
                harnesses += 1;
                let sc = v["schedules"].as_u64().unwrap_or(0);
                let cp = v["choice_points"].as_u64().unwrap_or(0);
                schedules += sc;
                max_sync = max_sync.max(v["sync_points_in_one_schedule"].as_u64().unwrap_or(0));
                max_threads = max_threads.max(v["threads_created_by_subject"].as_u64().unwrap_or(0));
                let capped = v["capped"].as_str().unwrap_or("").to_string();
                if !capped.is_empty() {
                    ctx.cap_hit(format!("sync_schedules '{}': {}", v["name"].as_str().unwrap_or(""), capped));
                }
                if samples.len() < 3 || v["sync_points_in_one_schedule"].as_u64().unwrap_or(0) > 0 {
                    samples.push(json!({"system": format!("sync-level schedule exploration: {}", v["name"].as_str().unwrap_or("")), "threads": v["threads"], "preemption_bound": v["preemption_bound"], "schedules": sc, "choice_points": cp, "distinct_outcomes": v["distinct_outcomes"], "sync_points_in_one_schedule": v["sync_points_in_one_schedule"], "threads_created_by_subject": v["threads_created_by_subject"]}));
                }
                ctx.add_mc(sc, cp, sc, vec![]);
            }
            "violation" => {
                let idx = v["index"].as_i64().unwrap_or(-1);
                let choices: Vec<String> = v["schedule"].as_array().map(|a| a.iter().map(|c| c.to_string()).collect()).unwrap_or_default();
                ctx.violation(
                    sub,
                    idx.max(0) as u64,
                    Fail::with(
                        format!("instrumented build, harness '{}': {}", v["harness"].as_str().unwrap_or(""), v["message"].as_str().unwrap_or("")),
                        json!({"schedule_choices": v["schedule"], "harness_index": idx, "replay_directly": format!("{} {} --replay {} {}", exe.display(), ctx.tier.name(), idx, choices.join(","))}),
                    ),
                );
            }
            "machinery" => ctx.machinery(format!("sync_schedules: {}", v["message"].as_str().unwrap_or(""))),
            "done" => done = true,
            _ => {}
        }
    }
    for s in samples.into_iter().take(8) {
        ctx.add_mc(0, 0, 0, vec![s]);
    }
    ctx.count(sub, schedules, schedules, true, Some(json!({"harnesses": harnesses, "schedules": schedules, "most_sync_operations_in_one_schedule": max_sync, "most_threads_created_by_the_subject": max_threads, "note": "scheduling points = operation boundaries + every std::sync / std::thread operation in the subject's source (rewritten to the shim in an instrumented copy rebuilt from the working tree)"})));
    if !done && !ctx.has_violation() {
        ctx.machinery(format!("sync_schedules: ppsync ended without a verdict (exit {:?}); output tail: {}", out.status.code(), text.lines().rev().take(2).collect::<Vec<_>>().join(" | ")));
    }
    ctx.require(harnesses == 0 || schedules > harnesses, "sync_schedules explored a single schedule per harness (vacuous)");
}

/// "A pure function of its arguments": the same argument VALUES through shared references or through separate copies
/// (one prepared element used for two pairs vs two bit-identical clones; one scalar array referenced twice vs two copies)
/// must give bit-identical results - an operation must not look at the identity (address) of what it is given.
fn aliasing(ctx: &Ctx) {
    let sub = "aliasing";
    let names = ["miller_loop: one G2Prepared for two pairs vs two clones", "miller_loop: one G1Prepared for two pairs vs two clones", "sum_of_products: one scalar array referenced twice vs two copies", "Wnaf: shared table used twice vs two tables"];
    ctx.sweep(
        sub,
        names.len() as u64,
        |i| json!({"case": names[i as usize]}),
        |i| {
            let mut p2 = g1();
            p2.mul_assign(k(41));
            let mut q2 = g2();
            q2.mul_assign(k(42));
            let (pa, pb) = (G1Affine::one().prepare(), p2.into_affine().prepare());
            let (qa, qb) = (q2.into_affine().prepare(), G2Affine::one().prepare());
            let (x, y): (Vec<u8>, Vec<u8>) = match i {
                0 => {
                    let qc = qa.clone();
                    (raw_fq12(&Bls12::miller_loop([(&pa, &qa), (&pb, &qa)].iter())), raw_fq12(&Bls12::miller_loop([(&pa, &qa), (&pb, &qc)].iter())))
                }
                1 => {
                    let pc = pa.clone();
                    (raw_fq12(&Bls12::miller_loop([(&pa, &qa), (&pa, &qb)].iter())), raw_fq12(&Bls12::miller_loop([(&pa, &qa), (&pc, &qb)].iter())))
                }
                2 => {
                    let pts = [g1().into_affine(), p2.into_affine()];
                    let (s1, s2) = (k(43).0, k(43).0);
                    (raw_g1(&G1Affine::sum_of_products(&pts, &[&s1, &s1])), raw_g1(&G1Affine::sum_of_products(&pts, &[&s1, &s2])))
                }
                _ => {
                    let mut w1 = Wnaf::new();
                    let mut w2 = Wnaf::new();
                    let mut t1 = w1.base(p2, 2);
                    let a: G1 = t1.scalar(k(44));
                    let b: G1 = t1.scalar(k(45));
                    let mut t2 = w2.base(p2, 2);
                    let c: G1 = t2.scalar(k(45));
                    let mut u = raw_g1(&a);
                    u.extend(raw_g1(&b));
                    let mut w3 = Wnaf::new();
                    let a2: G1 = w3.base(p2, 2).scalar(k(44));
                    let mut v = raw_g1(&a2);
                    v.extend(raw_g1(&c));
                    (u, v)
                }
            };
            if x != y {
                return Err(Fail::new(format!("the result depends on whether equal arguments are the same object: {}", names[i as usize])));
            }
            Ok("aliasing")
        },
    );
}

pub fn hex_of(b: &[u8]) -> String {
    b.iter().map(|x| format!("{:02x}", x)).collect()
}

/// baseline: each operation instance run FIRST in a fresh process image
fn baselines(ctx: &Ctx) -> Option<Vec<Vec<u8>>> {
    let exe = std::env::current_exe().ok()?;
    let mut out = vec![];
    for i in 0..N_OPS {
        let o = std::process::Command::new(&exe).arg("__c20_op").arg(i.to_string()).output().ok()?;
        if !o.status.success() {
            ctx.machinery(format!("baseline child for op {} failed", i));
            return None;
        }
        let s = String::from_utf8_lossy(&o.stdout).trim().to_string();
        let bytes: Vec<u8> = (0..s.len() / 2).map(|j| u8::from_str_radix(&s[2 * j..2 * j + 2], 16).unwrap()).collect();
        out.push(bytes);
    }
    Some(out)
}

fn histories(ctx: &Ctx, base: &[Vec<u8>]) {
    // single-threaded on purpose: the verdict must not depend on which other histories run concurrently
    let inj = ctx.injecting("C20");
    let full: Vec<usize> = (0..N_OPS).collect();
    let cheap: Vec<usize> = vec![0, 1, 3, 4, 6, 7, 8, 11, 12, 16, 17, 18];
    let plans: Vec<(usize, &Vec<usize>)> = if ctx.quick() { vec![(1, &full), (2, &full), (3, &cheap)] } else { vec![(1, &full), (2, &full), (3, &full), (4, &cheap)] };
    for (len, alpha) in plans {
        let sub = format!("histories.len{}", len);
        if !ctx.selected(&sub) {
            continue;
        }
        ctx.trace(&format!("histories {} over {} ops", len, alpha.len()));
        let n = alpha.len();
        let total = n.pow(len as u32);
        let only = ctx.replay_index(&sub);
        let mut evals = 0u64;
        let mut bad: Option<(u64, String, Vec<usize>)> = None;
        for idx in 0..total {
            if let Some(o) = only {
                if o != idx as u64 {
                    continue;
                }
            }
            let mut t = idx;
            let mut seq = vec![];
            for _ in 0..len {
                seq.push(alpha[t % n]);
                t /= n;
            }
            let seq2 = seq.clone();
            // a fresh thread per history: thread-local state starts empty, process-global state carries over
            let outs: Vec<Vec<u8>> = std::thread::spawn(move || seq2.iter().map(|&op| run_op(op)).collect()).join().unwrap_or_default();
            evals += len as u64;
            if outs.len() != len {
                bad = Some((idx as u64, "an operation panicked inside a history".into(), seq));
                break;
            }
            for (pos, (op, o)) in seq.iter().zip(&outs).enumerate() {
                let mut o = o.clone();
                if inj && len == 2 && pos == 1 && *op == 8 && seq[0] == 7 {
                    o[0] ^= 1;
                }
                if o != base[*op] {
                    bad = Some((idx as u64, format!("operation '{}' at position {} of a history returned different bits than when run first in a fresh process", OP_NAMES[*op], pos), seq.clone()));
                    break;
                }
            }
            if bad.is_some() {
                break;
            }
        }
        ctx.count(&sub, evals, evals, true, Some(json!({"length": len, "alphabet": alpha.iter().map(|&i| OP_NAMES[i]).collect::<Vec<_>>(), "histories": total})));
        ctx.add_mc(total as u64, evals, total as u64, vec![json!({"system": "operation histories in one thread", "length": len, "histories": total, "alphabet_size": n})]);
        if let Some((idx, msg, seq)) = bad {
            ctx.violation(&sub, idx, Fail::with(msg, json!({"history": seq.iter().map(|&i| OP_NAMES[i]).collect::<Vec<_>>()})));
        }
    }
}

fn sched_harness(ctx: &Ctx, name: &str, n: usize, hook_points: Vec<u32>, bound: usize, body: &(dyn Fn(usize, &dyn Fn()) -> Vec<u8> + Sync)) {
    let sub = format!("schedules.{}", name);
    if !ctx.selected(&sub) {
        return;
    }
    ctx.trace(&format!("schedules {}", name));
    // sequential reference: each body alone, no scheduler
    let noop = || {};
    let expect: Vec<Vec<u8>> = (0..n).map(|t| body(t, &noop)).collect();
    let h = Harness { name: name.to_string(), n, body, hook_points: hook_points.clone() };
    let inj = ctx.injecting("C20");
    let check = |x: &RunOut| -> Result<(), String> {
        for t in 0..n {
            let mut o = x.outputs[t].clone();
            if inj && name == "H6" && x.trace.iter().filter(|c| c.running.is_some() && c.chosen != 0).count() == 2 && t == 0 && !o.is_empty() {
                o[0] ^= 1;
            }
            if o != expect[t] {
                return Err(format!("thread {} of harness {} observed different bits than in the sequential run", t, name));
            }
        }
        Ok(())
    };
    let st = explore(&h, bound, ctx.tier.pick(20_000, 400_000), &check);
    ctx.count(&sub, st.schedules, st.schedules, !st.capped, Some(json!({"harness": name, "threads": n, "hook_points": hook_points, "preemption_bound": bound, "schedules": st.schedules, "choice_points": st.choice_points, "max_preemptions_used": st.max_preemptions_used, "distinct_outcomes": st.distinct_outcomes})));
    ctx.add_mc(st.schedules, st.choice_points, st.schedules, vec![json!({"system": format!("schedule exploration {}", name), "threads": n, "preemption_bound": bound, "schedules": st.schedules, "choice_points": st.choice_points, "distinct_outcomes": st.distinct_outcomes, "capped": st.capped})]);
    if st.capped {
        ctx.cap_hit(format!("{}: schedule cap reached after {} schedules", name, st.schedules));
    }
    if let Some(m) = st.machinery {
        ctx.machinery(m);
    }
    if let Some((choices, msg)) = st.violation {
        ctx.violation(&sub, 0, Fail::with(msg, json!({"schedule_choices": choices, "harness": name})));
    }
    ctx.require(st.schedules > 1, "schedule exploration visited a single schedule (vacuous)");
}

pub fn run(ctx: &Ctx) -> (&'static str, &'static str) {
    if let Some(base) = baselines(ctx) {
        // the in-process first evaluation must already agree with the fresh-process one
        for i in 0..N_OPS {
            if run_op(i) != base[i] {
                ctx.violation("histories.len1", i as u64, Fail::new(format!("operation '{}' differs between two processes", OP_NAMES[i])));
            }
        }
        histories(ctx, &base);
        free_running(ctx, &base);
        miri_pass(ctx);
        sync_pass(ctx);
        aliasing(ctx);
    } else {
        ctx.machinery("could not compute fresh-process baselines");
    }
    let bound = ctx.tier.pick(2, 3);
    // H1: one wNAF table shared by reference, each thread recodes its own scalars
    {
        let mut wn = Wnaf::new();
        let wb = wn.base(g1(), 4);
        let body = |tid: usize, y: &dyn Fn()| -> Vec<u8> {
            let mut s = wb.shared();
            y();
            let a: G1 = s.scalar(k(30 + tid as u64));
            y();
            let b: G1 = s.scalar(k(40 + tid as u64));
            let mut o = raw_g1(&a);
            o.extend(raw_g1(&b));
            o
        };
        sched_harness(ctx, "H1 shared wNAF table", 2, vec![12], bound, &body);
    }
    // H2: one digit string shared by reference, each thread builds its own table
    {
        let mut wn = Wnaf::<(), Vec<G2>, Vec<i64>>::new();
        let ws = wn.scalar(k(50));
        let bases = [g2(), { let mut b = g2(); b.double(); b }, { let mut b = g2(); b.negate(); b }];
        let body = |tid: usize, y: &dyn Fn()| -> Vec<u8> {
            let mut s = ws.shared();
            y();
            let a: G2 = s.base(bases[tid]);
            y();
            let b: G2 = s.base(bases[(tid + 1) % 3]);
            let mut o = raw_g2(&a);
            o.extend(raw_g2(&b));
            o
        };
        sched_harness(ctx, "H2 shared wNAF digits", 2, vec![11], bound, &body);
    }
    // H3: one prepared G2 element shared by two Miller loops
    {
        let qp = G2Affine::one().prepare();
        let ps = [G1Affine::one().prepare(), { let mut p = g1(); p.mul_assign(k(60)); p.into_affine().prepare() }];
        let body = |tid: usize, y: &dyn Fn()| -> Vec<u8> {
            let f = Bls12::miller_loop([(&ps[tid], &qp)].iter());
            y();
            raw_fq12(&Bls12::final_exponentiation(&f).unwrap())
        };
        sched_harness(ctx, "H3 shared prepared elements", 2, vec![21, 22, 23], bound, &body);
    }
    // H4: one precomp_256 table shared by reference
    {
        let a = g1().into_affine();
        let mut pre = vec![G1Affine::zero(); 256];
        a.precomp_256(&mut pre);
        let body = |tid: usize, y: &dyn Fn()| -> Vec<u8> {
            let r1 = a.mul_precomp_256(k(70 + tid as u64), &pre);
            y();
            let kk = k(80 + tid as u64).0;
            let r2 = G1Affine::sum_of_products_precomp_256(&[a], &[&kk], &pre);
            let mut o = raw_g1(&r1);
            o.extend(raw_g1(&r2));
            o
        };
        sched_harness(ctx, "H4 shared precomputation table", 2, vec![], bound, &body);
    }
    // H5: the same input bytes deserialized by both threads, then hashing
    {
        let mut bytes = vec![];
        g1().serialize(&mut bytes, true).unwrap();
        let body = |tid: usize, y: &dyn Fn()| -> Vec<u8> {
            let p = G1::deserialize(&mut &bytes[..], true).unwrap();
            y();
            let h = <G1 as HashToCurve<ExpandMsgXmd<sha2::Sha256>>>::hash_to_curve([b'm', tid as u8], b"QUUX-V01-CS02-with-BLS12381G1_XMD:SHA-256_SSWU_RO_");
            let mut o = raw_g1(&p);
            o.extend(raw_g1(&h));
            o
        };
        sched_harness(ctx, "H5 shared input bytes + hashing", 2, vec![31, 32], bound, &body);
    }
    // H6: independent wNAF contexts in each thread (nothing shared by the caller)
    {
        let nthreads = ctx.tier.pick(2, 3);
        let body = |tid: usize, y: &dyn Fn()| -> Vec<u8> {
            let a: G1 = Wnaf::new().scalar(k(90 + tid as u64)).base(g1());
            y();
            let b: G1 = Wnaf::new().base(a, 1).scalar(k(95 + tid as u64));
            let mut o = raw_g1(&a);
            o.extend(raw_g1(&b));
            o
        };
        sched_harness(ctx, "H6", nthreads, vec![11, 12], ctx.tier.pick(2, 2), &body);
    }
    // H7: preparation of Q and of -Q in different threads, then pairings
    {
        let mut q = g2();
        q.mul_assign(k(99));
        let qa = q.into_affine();
        let mut nqa = qa;
        nqa.negate();
        let qs = [qa, nqa];
        let body = |tid: usize, y: &dyn Fn()| -> Vec<u8> {
            let prep = G2Prepared::from_affine(qs[tid]);
            y();
            let f = Bls12::miller_loop([(&G1Affine::one().prepare(), &prep)].iter());
            raw_fq12(&f)
        };
        sched_harness(ctx, "H7 prepare(Q) || prepare(-Q)", 2, vec![24, 21], bound, &body);
    }
    // static look at the built artefact: writable data symbols of the subject (reported, not a verdict)
    if let Ok(o) = std::process::Command::new("sh").arg("-c").arg("for f in /verif/target/release/deps/libpairing_plus-*.rlib; do nm -C \"$f\" 2>/dev/null; done | grep -E ' [bBdD] ' | grep -i pairing_plus | grep -v verif_sync | sort -u | head -20").output() {
        let s = String::from_utf8_lossy(&o.stdout).to_string();
        ctx.extra("writable data symbols of pairing_plus in the rlib (hooks on)", json!(s.lines().collect::<Vec<_>>()));
    }
    ctx.assume("scheduling points are operation boundaries and the cfg-guarded hook points at phase boundaries; interference through state touched strictly between two points of one operation is outside the explored schedules");
    ctx.assume("free_running_sampling is a labelled SAMPLING pass (16 unsynchronised threads, fresh child processes): it can only add violations, it is never the reason a property is reported as held");
    ctx.assume("bit-level observations are the in-memory Montgomery limbs of every coordinate / coefficient");
    (
        "model_checking",
        "histories: all sequences of length 1, 2 (and 3: quick over an 8-op sub-alphabet, thorough over all) of 16 operation instances on fixed operands (group arithmetic, three multiplication paths, reused wNAF context, multi-scalar multiplication, preparation of Q and -Q, pairing, Miller loop + final exponentiation, encode/decode, hashing, (de)serialization, random under a fixed-seed RNG, square roots, and two calls that violate a documented precondition and end in a caught panic), each history in a fresh thread, every output compared bit for bit with the same instance run first in a fresh process; schedules: harnesses H1..H7 of 2-3 real threads sharing a wNAF table, a digit string, prepared pairing elements, a precomputation table, input bytes, or nothing, explored under ALL schedules with at most 2 (quick) / 3 (thorough) preemptions, each thread's output compared bit for bit with the sequential run; the default schedule is replayed twice to confirm the explorer owns all nondeterminism",
    )
}
