//! C15 — simplified SWU maps every field element onto the isogenous curve, per RFC 9380.
use crate::alpha;
use crate::conv::*;
use crate::h2cref::*;
use crate::infra::{guard, par_map, Ctx, Fail};
use crate::refmodel::*;
use ff::Field;
use num_bigint::BigUint;
use pairing_plus::bls12_381::verif::{chain_p2m9div16, chain_pm3div4};
use pairing_plus::CurveProjective;
use serde_json::json;
use std::collections::BTreeMap;

pub struct TAlpha<S: Suite> {
    pub ts: Vec<S::K>,
    pub class: Vec<String>,
}

/// mu_8 in Fq2: index of zeta = gx1^((q^2-1)/8) among the 8th roots of unity (0..3: gx1 square)
fn zeta_index(gx1: &Q2) -> usize {
    let q = q();
    let e = (q * q - 1u32) >> 3;
    let z = gx1.pow(&e);
    // generator of mu_8: sqrt(i) ; enumerate powers
    let i = q2u(0, 1);
    let s = i.sqrt().expect("sqrt(i) exists in Fq2");
    let mut w = Q2::one();
    let mut roots = vec![];
    for _ in 0..8 {
        roots.push(w.clone());
        w = w.mul(&s);
    }
    // order: squares of Fq2 give zeta in mu_4 = even powers of s
    let k = roots.iter().position(|r| *r == z).expect("gx1^((q^2-1)/8) is not an 8th root of unity");
    if k % 2 == 0 {
        k / 2
    } else {
        4 + k / 2
    }
}

pub fn class_g1(t: &Q1) -> String {
    let c = e1_iso();
    let z = sswu_z1();
    let zu2 = z.mul(&t.sq());
    if t.is_zero() {
        return "t = 0".into();
    }
    if zu2.sq().add(&zu2).is_zero() {
        return "exceptional: Z^2 t^4 + Z t^2 = 0".into();
    }
    let tv1 = zu2.sq().add(&zu2).inv0();
    let x1 = c.b.neg().mul(&c.a.inv().unwrap()).mul(&Q1::one().add(&tv1));
    let first = c.rhs(&x1).is_square();
    format!("{} / sgn0(t)={}", if first { "x1 (g(x1) square)" } else { "x2" }, t.sgn0())
}
pub fn class_g2(t: &Q2) -> String {
    let c = e2_iso();
    let z = sswu_z2();
    if t.is_zero() {
        return "t = 0".into();
    }
    let zu2 = z.mul(&t.sq());
    let d = zu2.sq().add(&zu2);
    if d.is_zero() {
        return "exceptional: Z^2 t^4 + Z t^2 = 0".into();
    }
    let tv1 = d.inv0();
    let x1 = c.b.neg().mul(&c.a.inv().unwrap()).mul(&Q2::one().add(&tv1));
    let zi = zeta_index(&c.rhs(&x1));
    format!("{} #{} / sgn0(t)={}", if zi < 4 { "x1, root-of-unity" } else { "x2, eta" }, zi % 4, t.sgn0())
}

pub fn build_g1(ctx: &Ctx, per_class: usize, extra: usize) -> TAlpha<RG1> {
    let q = q();
    let mut rng = ctx.rng("c15.g1");
    let mut ts: Vec<Q1> = vec![Q1::zero(), Q1::one(), Q1::one().neg(), Q1::from_u64(2), Q1::from_u64(2).neg(), Q1::new((q - 1u32) >> 1), Q1::new((q + 1u32) >> 1)];
    for k in [1usize, 2, 5] {
        ts.push(Q1::new(alpha::pow2(64 * k)));
        ts.push(Q1::new(alpha::pow2(64 * k) + 1u32));
    }
    // exceptional roots: t^2 = -1/Z
    let m = sswu_z1().inv().unwrap().neg();
    if let Some(s) = m.sqrt() {
        ts.push(s.clone());
        ts.push(s.neg());
    }
    let cand: Vec<Q1> = (0..(per_class * 4 * 6 + extra)).map(|_| Q1::new(alpha::rand_below(&mut rng, q))).collect();
    let classes = par_map(cand.len(), |i| class_g1(&cand[i]));
    let mut count: BTreeMap<String, usize> = BTreeMap::new();
    let mut taken_extra = 0;
    for (t, c) in cand.into_iter().zip(classes) {
        let n = count.entry(c).or_insert(0);
        if *n < per_class {
            *n += 1;
            ts.push(t);
        } else if taken_extra < extra {
            taken_extra += 1;
            ts.push(t);
        }
    }
    let mut seen = std::collections::HashSet::new();
    ts.retain(|t| seen.insert(t.clone()));
    let class = par_map(ts.len(), |i| class_g1(&ts[i]));
    TAlpha { ts, class }
}
pub fn build_g2(ctx: &Ctx, per_class: usize, extra: usize) -> TAlpha<RG2> {
    let q = q();
    let mut rng = ctx.rng("c15.g2");
    let mut ts: Vec<Q2> = vec![Q2::zero(), Q2::one(), Q2::one().neg(), q2u(2, 0), q2u(2, 0).neg(), q2u(0, 1), q2u(0, 1).neg(), q2u(1, 1), q2u(0, 2)];
    // components that are non-zero multiples of 2^64 ... 2^320 (sign rule on limb boundaries)
    for k in [1usize, 2, 5] {
        for c1 in [1u64, 2, 3] {
            ts.push(Q2::new(vec![Q1::new(alpha::pow2(64 * k)), Q1::from_u64(c1)]));
            ts.push(Q2::new(vec![Q1::from_u64(c1), Q1::new(alpha::pow2(64 * k))]));
        }
    }
    for _ in 0..4 {
        ts.push(Q2::new(vec![Q1::new(alpha::rand_below(&mut rng, q)), Q1::zero()]));
        ts.push(Q2::new(vec![Q1::zero(), Q1::new(alpha::rand_below(&mut rng, q))]));
    }
    let cand: Vec<Q2> = (0..(per_class * 16 * 5 + extra)).map(|_| Q2::new(vec![Q1::new(alpha::rand_below(&mut rng, q)), Q1::new(alpha::rand_below(&mut rng, q))])).collect();
    let classes = par_map(cand.len(), |i| class_g2(&cand[i]));
    let mut count: BTreeMap<String, usize> = BTreeMap::new();
    let mut taken_extra = 0;
    for (t, c) in cand.into_iter().zip(classes) {
        let n = count.entry(c).or_insert(0);
        if *n < per_class {
            *n += 1;
            ts.push(t);
        } else if taken_extra < extra {
            taken_extra += 1;
            ts.push(t);
        }
    }
    let mut seen = std::collections::HashSet::new();
    ts.retain(|t| seen.insert(t.clone()));
    let class = par_map(ts.len(), |i| class_g2(&ts[i]));
    TAlpha { ts, class }
}

fn leak(s: &str) -> &'static str {
    // class names are few; leak them so they can be used as &'static str class labels
    use std::sync::Mutex;
    static POOL: Mutex<Vec<&'static str>> = Mutex::new(Vec::new());
    let mut p = POOL.lock().unwrap();
    if let Some(x) = p.iter().find(|x| **x == s) {
        return x;
    }
    let l: &'static str = Box::leak(s.to_string().into_boxed_str());
    p.push(l);
    l
}

fn sswu_check<S: Suite>(ctx: &Ctx, ta: &TAlpha<S>, min_classes: usize, per_class: usize) {
    let name = S::NAME;
    let mut hist: BTreeMap<String, usize> = BTreeMap::new();
    for c in &ta.class {
        *hist.entry(c.clone()).or_insert(0) += 1;
    }
    let full = hist.iter().filter(|(k, v)| !k.starts_with("t = 0") && !k.starts_with("exceptional") && **v >= per_class).count();
    ctx.require(full >= min_classes, &format!("{}: SSWU class search found only {} of {} classes with >= {} members", name, full, min_classes, per_class));
    ctx.extra(&format!("{} SSWU classes", name), json!(hist));
    let iso = S::iso_curve();
    let inj = ctx.injecting("C15");
    ctx.sweep(
        &format!("{}.sswu", name),
        ta.ts.len() as u64,
        |i| json!({"t": S::showk(&ta.ts[i as usize]), "class": ta.class[i as usize]}),
        |i| {
            let t = &ta.ts[i as usize];
            let (want, _) = S::ref_sswu(t);
            let p = guard(|| S::lib_sswu(t)).map_err(|e| Fail::new(format!("{}: osswu_map panicked: {}", name, e)))?;
            let (x, y, z) = S::raw_of(&p);
            if z.is_zero() {
                return Err(Fail::new(format!("{}: osswu_map returned Z = 0", name)));
            }
            let mut got = pt_of_jac(&x, &y, &z);
            if inj && ta.class[i as usize].contains("x2") {
                got = iso.neg(&got);
            }
            if !iso.on_curve(&got) {
                return Err(Fail::with(format!("{}: osswu_map output is not on the isogenous curve", name), json!(S::show(&got))));
            }
            if got != want {
                return Err(Fail::with(format!("{}: osswu_map != RFC 9380 map_to_curve_simple_swu ({})", name, ta.class[i as usize]), json!({"got": S::show(&got), "want": S::show(&want)})));
            }
            Ok(leak(&ta.class[i as usize]))
        },
    );
    // call histories: the map is a function of t alone - the same t again, its negative (same t^2, same x, opposite y), and
    // the previous alphabet member in between, all on one thread of their own, each compared with the reference
    ctx.sweep(
        &format!("{}.sswu_history", name),
        ta.ts.len() as u64,
        |i| json!({"t": S::showk(&ta.ts[i as usize]), "class": ta.class[i as usize], "calls": "t, t, -t, t, t', -t, -t on one fresh thread (t' = previous alphabet member)"}),
        |i| {
            let t = ta.ts[i as usize].clone();
            let nt = t.neg();
            let other = ta.ts[(i as usize + ta.ts.len() - 1) % ta.ts.len()].clone();
            let wants = [S::ref_sswu(&t).0, S::ref_sswu(&nt).0, S::ref_sswu(&other).0];
            let seq: [usize; 7] = [0, 0, 1, 0, 2, 1, 1];
            let args = [t.clone(), nt, other];
            let res = std::thread::spawn(move || -> Vec<Pt<S::K>> {
                seq.iter()
                    .map(|&k| {
                        let (x, y, z) = S::raw_of(&S::lib_sswu(&args[k]));
                        if z.is_zero() {
                            Pt::Inf
                        } else {
                            pt_of_jac(&x, &y, &z)
                        }
                    })
                    .collect()
            })
            .join()
            .map_err(|_| Fail::new(format!("{}: osswu_map panicked in a repeated call", name)))?;
            for (j, &k) in seq.iter().enumerate() {
                if res[j] != wants[k] {
                    return Err(Fail::new(format!("{}: osswu_map differs from RFC 9380 on call #{} of the history t, t, -t, t, t', -t, -t (argument {})", name, j + 1, ["t", "-t", "t'"][k])));
                }
            }
            crate::infra::bump(6);
            Ok(if t.is_zero() { "" } else { "history" })
        },
    );
    // constants
    ctx.sweep(
        &format!("{}.sswu_constants", name),
        1,
        |_| json!({"check": "A', B', Z"}),
        |_| {
            let (a, b, z) = S::lib_consts();
            if a != iso.a || b != iso.b || z != S::z() {
                return Err(Fail::new(format!("{}: the SSWU constants A', B', Z differ from RFC 9380 section 8.8", name)));
            }
            Ok("constants")
        },
    );
}

pub fn run(ctx: &Ctx) -> (&'static str, &'static str) {
    let pc = ctx.tier.pick(8, 64);
    let t1 = build_g1(ctx, pc, ctx.tier.pick(64, 2048));
    sswu_check::<RG1>(ctx, &t1, 4, pc);
    ctx.require(t1.class.iter().any(|c| c.starts_with("exceptional")), "G1: exceptional SSWU inputs missing");
    let t2 = build_g2(ctx, pc, ctx.tier.pick(64, 2048));
    sswu_check::<RG2>(ctx, &t2, 16, pc);
    // addition chains against generic exponentiation
    let qq = q();
    let e1: BigUint = (qq - 3u32) >> 2;
    let e2: BigUint = (qq * qq - 9u32) >> 4;
    let mut a1: Vec<Q1> = t1.ts.iter().take(ctx.tier.pick(40, 200)).cloned().collect();
    a1.push(Q1::from_u64(2));
    ctx.sweep(
        "chain_pm3div4",
        a1.len() as u64,
        |i| json!({"x": hex_q1(&a1[i as usize])}),
        |i| {
            let x = &a1[i as usize];
            let fx = fq_of(x);
            let mut out = fx;
            chain_pm3div4(&mut out, &fx);
            if q1_of(&out) != x.pow(&e1) {
                return Err(Fail::new("chain_pm3div4(x) != x^((q-3)/4)"));
            }
            Ok(if x.is_zero() { "" } else { "chain" })
        },
    );
    let a2: Vec<Q2> = t2.ts.iter().take(ctx.tier.pick(40, 200)).cloned().collect();
    ctx.sweep(
        "chain_p2m9div16",
        a2.len() as u64,
        |i| json!({"x": hex_q2(&a2[i as usize])}),
        |i| {
            let x = &a2[i as usize];
            let fx = fq2_of(x);
            let mut out = fx;
            chain_p2m9div16(&mut out, &fx);
            if q2_of(&out) != x.pow(&e2) {
                return Err(Fail::new("chain_p2m9div16(x) != x^((q^2-9)/16)"));
            }
            Ok(if x.is_zero() { "" } else { "chain" })
        },
    );
    let _ = <pairing_plus::bls12_381::G1 as CurveProjective>::zero();
    let _ = pairing_plus::bls12_381::Fq::zero();
    ctx.assume("RFC 9380 constants A', B', Z transcribed into the reference model; 'first candidate whose right-hand side is a square' and sgn0 evaluated on big integers");
    (
        "exploration",
        "t alphabet: 0, +-1, +-2, (q+-1)/2, the exceptional roots +-sqrt(-1/Z) (G1), Fq-embedded and purely imaginary elements (G2), and >= 8 (quick) / 64 (thorough) members of EVERY class of the optimized algorithm's case split, computed by the reference model: G1 (which candidate is square) x sgn0(t); G2 the 8 values of g(x1)^((q^2-1)/8) in mu_8 (4 root-of-unity cases when g(x1) is square, 4 eta cases otherwise) x sgn0(t); the run is a machinery failure if a class is short; plus a seeded tail; each t compared with RFC map_to_curve_simple_swu evaluated on big integers; for every t the call history t, t, -t, t, t', -t, -t on a fresh thread, every call compared with the reference",
    )
}
