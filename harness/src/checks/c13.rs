//! C13 — expand_message and hash_to_field conform to RFC 9380 for all inputs.
use crate::alpha;
use crate::conv::*;
use crate::infra::{guard, unrank, Ctx, Fail};
use crate::refmodel::rfc::{expand, hash_to_field_ints, Expander};
use crate::refmodel::*;
use digest::generic_array::GenericArray;
use num_bigint::BigUint;
use pairing_plus::bls12_381::{Fq, Fq2, Fr};
use pairing_plus::hash_to_field::{hash_to_field, BaseFromRO, ExpandMsg, ExpandMsgXmd, ExpandMsgXof, FromRO};
use serde_json::json;

/// caller-supplied hashes with unusual sizes: expand_message_xmd must work for any Merkle-Damgard style hash, not only for
/// the SHA-2 sizes (output not a multiple of 8 bytes, block size unrelated to the output size, a block shorter than the
/// output).  Not cryptographic; deterministic and position dependent.
pub struct Toy<O, B> {
    a: u64,
    b: u64,
    n: u64,
    _p: std::marker::PhantomData<(O, B)>,
}
impl<O, B> Clone for Toy<O, B> {
    fn clone(&self) -> Self {
        Toy { a: self.a, b: self.b, n: self.n, _p: std::marker::PhantomData }
    }
}
impl<O, B> Default for Toy<O, B> {
    fn default() -> Self {
        Toy { a: 0x243f6a8885a308d3, b: 0x13198a2e03707344, n: 0, _p: std::marker::PhantomData }
    }
}
impl<O, B> digest::Input for Toy<O, B> {
    fn input<D: AsRef<[u8]>>(&mut self, data: D) {
        for x in data.as_ref() {
            self.n = self.n.wrapping_add(1);
            self.a = (self.a ^ (*x as u64) ^ self.n).wrapping_mul(0x100000001b3).rotate_left(13);
            self.b = (self.b.wrapping_add(self.a) ^ ((*x as u64) << 17)).wrapping_mul(0x9E3779B97F4A7C15).rotate_left(29);
        }
    }
}
impl<O: digest::generic_array::ArrayLength<u8>, B> digest::FixedOutput for Toy<O, B> {
    type OutputSize = O;
    fn fixed_result(self) -> GenericArray<u8, O> {
        let mut out = GenericArray::<u8, O>::default();
        let mut fa = (self.a ^ self.n).wrapping_mul(0xff51afd7ed558ccd) ^ self.b.rotate_left(7);
        let mut fb = (self.b ^ fa).wrapping_mul(0xc4ceb9fe1a85ec53) ^ self.a.rotate_left(31);
        for (i, o) in out.iter_mut().enumerate() {
            if i % 8 == 0 && i > 0 {
                fa = (fa ^ fb).wrapping_mul(0xff51afd7ed558ccd).rotate_left(23);
                fb = (fb.wrapping_add(fa)).wrapping_mul(0xc4ceb9fe1a85ec53).rotate_left(41);
            }
            *o = (fa >> (8 * (7 - i % 8))) as u8;
        }
        out
    }
}
impl<O, B: digest::generic_array::ArrayLength<u8>> digest::BlockInput for Toy<O, B> {
    type BlockSize = B;
}
/// the RustCrypto hashers implement io::Write under the `std` feature; a caller-supplied hash may be expected to as well
impl<O, B> std::io::Write for Toy<O, B> {
    fn write(&mut self, buf: &[u8]) -> std::io::Result<usize> {
        digest::Input::input(self, buf);
        Ok(buf.len())
    }
    fn flush(&mut self) -> std::io::Result<()> {
        Ok(())
    }
}
impl<O, B> digest::Reset for Toy<O, B> {
    fn reset(&mut self) {
        *self = Toy::default();
    }
}
fn toy<O: digest::generic_array::ArrayLength<u8>, B>(parts: &[&[u8]]) -> Vec<u8> {
    use digest::{FixedOutput, Input};
    let mut h = Toy::<O, B>::default();
    for p in parts {
        h.input(p);
    }
    h.fixed_result().to_vec()
}
/// RFC 9380 5.3.1 with a toy hash (b = output size, s = block size)
fn ref_xmd_toy<O: digest::generic_array::ArrayLength<u8>, B: digest::generic_array::ArrayLength<u8>>(msg: &[u8], dst: &[u8], len_in_bytes: usize) -> Option<Vec<u8>> {
    let (b, s) = (O::to_usize(), B::to_usize());
    let ell = (len_in_bytes + b - 1) / b;
    if ell > 255 || len_in_bytes > 65535 || dst.len() > 255 {
        return None;
    }
    let dst_prime: Vec<u8> = [dst, &[dst.len() as u8]].concat();
    let z_pad = vec![0u8; s];
    let lib = [(len_in_bytes >> 8) as u8, (len_in_bytes & 0xff) as u8];
    let b0 = toy::<O, B>(&[&z_pad, msg, &lib, &[0u8], &dst_prime]);
    let mut prev = toy::<O, B>(&[&b0, &[1u8], &dst_prime]);
    let mut out = prev.clone();
    for i in 2..=ell {
        let x: Vec<u8> = b0.iter().zip(&prev).map(|(p, q)| p ^ q).collect();
        prev = toy::<O, B>(&[&x, &[i as u8], &dst_prime]);
        out.extend_from_slice(&prev);
    }
    out.truncate(len_in_bytes);
    Some(out)
}

fn toy_sweep<O, B>(ctx: &Ctx, ml: &[usize], dl: &[usize])
where
    O: digest::generic_array::ArrayLength<u8> + Sync + 'static,
    B: digest::generic_array::ArrayLength<u8> + Sync + 'static,
{
    let (b, s) = (O::to_usize(), B::to_usize());
    let lim = 255 * b;
    let mut tl: Vec<usize> = vec![0, 1, b - 1, b, b + 1, 2 * b - 1, 2 * b, 2 * b + 1, 3 * b, 255, 256, lim - 1, lim, lim + 1, 2 * lim];
    tl.retain(|&x| x <= 65535);
    tl.sort();
    tl.dedup();
    let rad = [tl.len() as u64, dl.len() as u64, ml.len() as u64];
    ctx.sweep(
        &format!("expand_message.toy_hash_{}_{}", b, s),
        crate::infra::space(&rad),
        |i| {
            let d = unrank(i, &rad);
            json!({"hash": format!("toy {}-byte output / {}-byte block", b, s), "msg_len": ml[d[2]], "dst_len": dl[d[1]], "len_in_bytes": tl[d[0]]})
        },
        |i| {
            let d = unrank(i, &rad);
            let msg = fill(ml[d[2]], 0);
            let dst = rfc_dst(dl[d[1]], 0);
            let len = tl[d[0]];
            let want = ref_xmd_toy::<O, B>(&msg, &dst, len);
            let got = guard(|| ExpandMsgXmd::<Toy<O, B>>::expand_message(&msg, &dst, len));
            match (want, got) {
                (None, Err(_)) => Ok("abort beyond 255 blocks"),
                (None, Ok(_)) => Err(Fail::new(format!("expand_message_xmd ({}-byte hash) returned bytes for {} bytes = more than 255 blocks", b, len))),
                (Some(_), Err(m)) => Err(Fail::new(format!("expand_message_xmd ({}-byte hash) aborted inside the limit: {}", b, m))),
                (Some(w), Ok(g)) => {
                    if w != g {
                        return Err(Fail::new(format!("expand_message_xmd differs from RFC 9380 section 5.3.1 for a hash with {}-byte output and {}-byte block", b, s)));
                    }
                    Ok(if len == 0 { "" } else { "output" })
                }
            }
        },
    );
}

pub const EXPANDERS: [Expander; 4] = [Expander::XmdSha256, Expander::XmdSha512, Expander::XofShake128, Expander::XofShake256];

pub fn lib_expand(h: Expander, msg: &[u8], dst: &[u8], len: usize) -> Vec<u8> {
    match h {
        Expander::XmdSha256 => ExpandMsgXmd::<sha2::Sha256>::expand_message(msg, dst, len),
        Expander::XmdSha512 => ExpandMsgXmd::<sha2::Sha512>::expand_message(msg, dst, len),
        Expander::XofShake128 => ExpandMsgXof::<sha3::Shake128>::expand_message(msg, dst, len),
        Expander::XofShake256 => ExpandMsgXof::<sha3::Shake256>::expand_message(msg, dst, len),
    }
}
pub fn lib_h2f_fq(h: Expander, msg: &[u8], dst: &[u8], count: usize) -> Vec<Fq> {
    match h {
        Expander::XmdSha256 => hash_to_field::<Fq, ExpandMsgXmd<sha2::Sha256>>(msg, dst, count),
        Expander::XmdSha512 => hash_to_field::<Fq, ExpandMsgXmd<sha2::Sha512>>(msg, dst, count),
        Expander::XofShake128 => hash_to_field::<Fq, ExpandMsgXof<sha3::Shake128>>(msg, dst, count),
        Expander::XofShake256 => hash_to_field::<Fq, ExpandMsgXof<sha3::Shake256>>(msg, dst, count),
    }
}
pub fn lib_h2f_fr(h: Expander, msg: &[u8], dst: &[u8], count: usize) -> Vec<Fr> {
    match h {
        Expander::XmdSha256 => hash_to_field::<Fr, ExpandMsgXmd<sha2::Sha256>>(msg, dst, count),
        Expander::XmdSha512 => hash_to_field::<Fr, ExpandMsgXmd<sha2::Sha512>>(msg, dst, count),
        Expander::XofShake128 => hash_to_field::<Fr, ExpandMsgXof<sha3::Shake128>>(msg, dst, count),
        Expander::XofShake256 => hash_to_field::<Fr, ExpandMsgXof<sha3::Shake256>>(msg, dst, count),
    }
}
pub fn lib_h2f_fq2(h: Expander, msg: &[u8], dst: &[u8], count: usize) -> Vec<Fq2> {
    match h {
        Expander::XmdSha256 => hash_to_field::<Fq2, ExpandMsgXmd<sha2::Sha256>>(msg, dst, count),
        Expander::XmdSha512 => hash_to_field::<Fq2, ExpandMsgXmd<sha2::Sha512>>(msg, dst, count),
        Expander::XofShake128 => hash_to_field::<Fq2, ExpandMsgXof<sha3::Shake128>>(msg, dst, count),
        Expander::XofShake256 => hash_to_field::<Fq2, ExpandMsgXof<sha3::Shake256>>(msg, dst, count),
    }
}

pub fn msg_lengths(quick: bool) -> Vec<usize> {
    if quick {
        vec![0, 1, 3, 31, 32, 33, 55, 56, 63, 64, 65, 111, 112, 127, 128, 129, 135, 136, 137, 167, 168, 169, 1000]
    } else {
        vec![0, 1, 2, 3, 31, 32, 33, 54, 55, 56, 57, 63, 64, 65, 111, 112, 113, 119, 120, 127, 128, 129, 135, 136, 137, 167, 168, 169, 255, 256, 257, 1000, 4096]
    }
}
pub fn dst_lengths(quick: bool) -> Vec<usize> {
    if quick {
        vec![0, 1, 16, 43, 64, 128, 255]
    } else {
        vec![0, 1, 16, 43, 63, 64, 65, 127, 128, 254, 255]
    }
}
pub fn fill(len: usize, kind: usize) -> Vec<u8> {
    match kind {
        0 => (0..len).map(|i| (i * 7 + 1) as u8).collect(),
        1 => vec![0xff; len],
        _ => vec![0x00; len],
    }
}
pub fn rfc_dst(len: usize, kind: usize) -> Vec<u8> {
    // the RFC test tag, cut or padded to the requested length
    let tag = b"QUUX-V01-CS02-with-BLS12381G1_XMD:SHA-256_SSWU_RO_";
    let mut v: Vec<u8> = tag.iter().cycle().take(len).cloned().collect();
    match kind {
        1 => {
            for b in v.iter_mut() {
                *b = 0xff;
            }
        }
        // a zero byte at the end / at the start (a tag is a byte string, not a C string), all zero
        2 => {
            if let Some(l) = v.last_mut() {
                *l = 0;
            }
        }
        3 => {
            if let Some(f) = v.first_mut() {
                *f = 0;
            }
        }
        4 => {
            for b in v.iter_mut() {
                *b = 0;
            }
        }
        _ => {}
    }
    v
}
pub const DST_KINDS: u64 = 5;

pub fn run(ctx: &Ctx) -> (&'static str, &'static str) {
    let quick = ctx.quick();
    let ml = msg_lengths(false);
    let dl = dst_lengths(false);
    let lens: Vec<usize> = if quick {
        vec![0, 1, 31, 32, 33, 47, 48, 49, 63, 64, 65, 96, 127, 128, 129, 255, 256, 257, 8159, 8160, 8161, 16320, 16321]
    } else {
        vec![0, 1, 2, 31, 32, 33, 47, 48, 49, 63, 64, 65, 96, 127, 128, 129, 255, 256, 257, 511, 512, 8159, 8160, 8161, 16320, 16321, 65535]
    };
    // requests that do not fit the two-byte length field: whatever their low 16 bits say, XMD must abort (a length narrowed to
    // u16 before the 255-block test would pass 65536 + small)
    let lens: Vec<usize> = lens.into_iter().chain([65536usize, 65537, 65536 + 32, 65536 + 320, 65536 + 8160, 65536 + 16320, 2 * 65536 + 48, (1 << 24) + 64]).collect();
    let inj = ctx.injecting("C13");
    let nkinds = if quick { 2 } else { 3 };
    let rad = [lens.len() as u64, dl.len() as u64, DST_KINDS, ml.len() as u64, nkinds as u64, 4];
    ctx.sweep(
        "expand_message",
        crate::infra::space(&rad),
        |i| {
            let d = unrank(i, &rad);
            json!({"expander": format!("{:?}", EXPANDERS[d[5]]), "msg_len": ml[d[3]], "msg_fill": d[4], "dst_len": dl[d[1]], "dst_fill": d[2], "len_in_bytes": lens[d[0]]})
        },
        |i| {
            let d = unrank(i, &rad);
            let h = EXPANDERS[d[5]];
            let msg = fill(ml[d[3]], d[4]);
            let dst = rfc_dst(dl[d[1]], d[2]);
            let len = lens[d[0]];
            let want = expand(h, &msg, &dst, len);
            let is_xof = matches!(h, Expander::XofShake128 | Expander::XofShake256);
            if is_xof && len > 65535 {
                return Ok(""); // outside the stated domain of the XOF expander (and it would squeeze that many bytes)
            }
            let got = guard(|| lib_expand(h, &msg, &dst, len));
            match (want, got) {
                (None, Err(_)) => Ok("abort beyond 255 blocks"),
                (None, Ok(_)) => {
                    if is_xof {
                        return Ok(""); // outside the stated domain
                    }
                    Err(Fail::new(format!("expand_message_xmd returned bytes for a request beyond 255 output blocks ({} bytes)", len)))
                }
                (Some(_), Err(m)) => Err(Fail::new(format!("expand_message aborted inside the RFC limits: {}", m))),
                (Some(w), Ok(mut g)) => {
                    if inj && len == 129 && ml[d[3]] == 64 {
                        g[128] ^= 1;
                    }
                    if g != w {
                        return Err(Fail::new(format!("expand_message output differs from RFC 9380 section 5.3 ({:?})", h)));
                    }
                    Ok(if len == 0 { "" } else if len > 255 * 16 { "long output" } else { "output" })
                }
            }
        },
    );
    // complete in one dimension at a time: EVERY output length / message length / tag length up to a bound (no gaps between the
    // boundary values of the alphabet above)
    {
        let (nl, nm, nd) = if quick { (300usize, 150usize, 255usize) } else { (2100, 600, 255) };
        // (axis, value): axis 0 = output length, 1 = message length, 2 = tag length; the two other coordinates take a few fixed values
        let fixed: [[(usize, usize, usize); 3]; 3] = [
            [(0, 0, 43), (0, 64, 255), (0, 3, 0)],      // (len ignored, msg, dst)
            [(32, 0, 43), (129, 0, 255), (48, 0, 1)],   // (len, msg ignored, dst)
            [(48, 0, 0), (129, 65, 0), (64, 128, 0)],   // (len, msg, dst ignored)
        ];
        let sizes = [nl + 1, nm + 1, nd + 1];
        let mut cases: Vec<(usize, usize, usize)> = vec![]; // (len, msg, dst)
        for axis in 0..3 {
            for v in 0..sizes[axis] {
                for f in fixed[axis].iter() {
                    cases.push(match axis {
                        0 => (v, f.1, f.2),
                        1 => (f.0, v, f.2),
                        _ => (f.0, f.1, v),
                    });
                }
            }
        }
        // and the full (message length x tag length) grid at one output length: anything keyed on the SUM of the two lengths
        // (one-shot buffers, padding boundaries of the first hash input) sits on a diagonal of this grid
        let gm = if quick { 160 } else { 320 };
        for m in 0..=gm {
            for dlen in 0..=255 {
                cases.push((48, m, dlen));
            }
        }
        // long messages: lengths around every power of two up to 2^21 (chunked absorption, 16-/32-bit length arithmetic), and
        // lengths that are not a multiple of 2^16 beyond it
        for k in 9..=21usize {
            for m in [(1usize << k) - 1, 1 << k, (1 << k) + 1] {
                cases.push((32, m, 43));
            }
        }
        for m in [100_000usize, 3 * 65536 + 5, 1_000_003] {
            cases.push((129, m, 43));
        }
        let rad = [cases.len() as u64, 4];
        ctx.sweep(
            "expand_message.every_length",
            crate::infra::space(&rad),
            |i| {
                let d = unrank(i, &rad);
                let c = cases[d[0]];
                json!({"expander": format!("{:?}", EXPANDERS[d[1]]), "len_in_bytes": c.0, "msg_len": c.1, "dst_len": c.2})
            },
            |i| {
                let d = unrank(i, &rad);
                let (len, m, dlen) = cases[d[0]];
                let h = EXPANDERS[d[1]];
                let msg = fill(m, 0);
                let dst = rfc_dst(dlen, 0);
                let want = match expand(h, &msg, &dst, len) {
                    Some(w) => w,
                    None => return Err(Fail::new("harness: case outside the RFC limits in the every-length sweep")),
                };
                match guard(|| lib_expand(h, &msg, &dst, len)) {
                    Err(m) => Err(Fail::new(format!("expand_message aborted inside the RFC limits: {}", m))),
                    Ok(g) => {
                        if g != want {
                            return Err(Fail::new(format!("expand_message output differs from RFC 9380 section 5.3 ({:?})", h)));
                        }
                        Ok(if len == 0 { "" } else { "output" })
                    }
                }
            },
        );
    }
    // the same through caller-supplied hashes with other sizes: 16/24 (limit at 255*16 = 4080), 28/64 (SHA-224 shape: the
    // output is not a multiple of 8 bytes), 20/64, 33/17 (odd output, block shorter than the output), 1/3
    {
        use digest::generic_array::typenum::{U1, U16, U17, U20, U24, U28, U3, U33, U64};
        toy_sweep::<U16, U24>(ctx, &ml, &dl);
        toy_sweep::<U28, U64>(ctx, &ml, &dl);
        toy_sweep::<U20, U64>(ctx, &ml, &dl);
        toy_sweep::<U33, U17>(ctx, &ml, &dl);
        toy_sweep::<U1, U3>(ctx, &ml, &dl);
    }
    // hash_to_field: blocks are consecutive, big-endian, reduced; Fq2 real part first
    let counts: Vec<usize> = vec![0, 1, 2, 3, 5, 17];
    let msgs: Vec<usize> = if quick { vec![0, 3, 64] } else { vec![0, 1, 3, 55, 64, 65, 137, 1000] };
    let rad = [counts.len() as u64 + 1, msgs.len() as u64, 4, 3];
    ctx.sweep(
        "hash_to_field",
        crate::infra::space(&rad),
        |i| {
            let d = unrank(i, &rad);
            json!({"field": (["Fq", "Fr", "Fq2"][d[3]]), "expander": format!("{:?}", EXPANDERS[d[2]]), "msg_len": msgs[d[1]], "count_index": d[0]})
        },
        |i| {
            let d = unrank(i, &rad);
            let h = EXPANDERS[d[2]];
            let msg = fill(msgs[d[1]], 0);
            let dst = rfc_dst(43, 0);
            let (m, l, p): (usize, usize, &BigUint) = match d[3] {
                0 => (1, 64, q()),
                1 => (1, 48, r()),
                _ => (2, 64, q()),
            };
            let block = match h {
                Expander::XmdSha256 => 32,
                Expander::XmdSha512 => 64,
                _ => 0,
            };
            // last index = the largest count inside the 255-block / 65535-byte limit
            let count = if d[0] < counts.len() {
                counts[d[0]]
            } else if block > 0 {
                (255 * block) / (m * l)
            } else {
                65535 / (m * l)
            };
            let want = hash_to_field_ints(h, &msg, &dst, count, m, l, p).ok_or_else(|| Fail::new("reference aborted (harness)"))?;
            let got: Vec<BigUint> = match d[3] {
                0 => guard(|| lib_h2f_fq(h, &msg, &dst, count)).map_err(Fail::new)?.iter().map(fq_int).collect(),
                1 => guard(|| lib_h2f_fr(h, &msg, &dst, count)).map_err(Fail::new)?.iter().map(fr_int).collect(),
                _ => guard(|| lib_h2f_fq2(h, &msg, &dst, count)).map_err(Fail::new)?.iter().flat_map(|x| vec![fq_int(&x.c0), fq_int(&x.c1)]).collect(),
            };
            if got != want {
                return Err(Fail::new(format!("hash_to_field differs from RFC 9380 (count {})", count)));
            }
            Ok(if count == 0 { "" } else if count > 17 { "maximal count" } else { "count" })
        },
    );
    // equal (msg, tag, length) through different field / expander instantiations back to back in one thread
    {
        let msgs: Vec<Vec<u8>> = vec![b"".to_vec(), fill(64, 0), fill(137, 1)];
        ctx.sweep(
            "hash_to_field.interleaved_instantiations",
            msgs.len() as u64,
            |i| json!({"msg_len": msgs[i as usize].len(), "variants": "Fq x6, Fr x8, Fq2 x3 (384 bytes each) x 4 expanders, all ordered pairs"}),
            |i| {
                let msg = msgs[i as usize].clone();
                let dst = rfc_dst(43, 0);
                // variant = (field, expander); 384 output bytes in every case
                let variants: Vec<(usize, Expander)> = (0..12).map(|v| (v % 3, EXPANDERS[v / 3])).collect();
                let want: Vec<Vec<BigUint>> = variants
                    .iter()
                    .map(|(f, h)| match f {
                        0 => hash_to_field_ints(*h, &msg, &dst, 6, 1, 64, q()).unwrap(),
                        1 => hash_to_field_ints(*h, &msg, &dst, 8, 1, 48, r()).unwrap(),
                        _ => hash_to_field_ints(*h, &msg, &dst, 3, 2, 64, q()).unwrap(),
                    })
                    .collect();
                let res: Result<(), String> = std::thread::spawn(move || {
                    for a in 0..12 {
                        for b in 0..12 {
                            for &v in &[a, b] {
                                let (f, h) = variants[v];
                                let got: Vec<BigUint> = match f {
                                    0 => lib_h2f_fq(h, &msg, &dst, 6).iter().map(fq_int).collect(),
                                    1 => lib_h2f_fr(h, &msg, &dst, 8).iter().map(fr_int).collect(),
                                    _ => lib_h2f_fq2(h, &msg, &dst, 3).iter().flat_map(|x| vec![fq_int(&x.c0), fq_int(&x.c1)]).collect(),
                                };
                                if got != want[v] {
                                    return Err(format!("hash_to_field variant #{} (field {}, {:?}) wrong when evaluated after variant #{}", v, f, h, a));
                                }
                            }
                        }
                    }
                    Ok(())
                })
                .join()
                .map_err(|_| Fail::new("hash_to_field panicked in the interleaving run"))?;
                crate::infra::bump(287);
                res.map_err(Fail::new)?;
                Ok("interleaved instantiations")
            },
        );
    }
    // the reduction of one block
    let mut rng = ctx.rng("c13.blocks");
    let mk_blocks = |p: &BigUint, l: usize, rng: &mut crate::infra::SplitMix| -> Vec<Vec<u8>> {
        let full = alpha::pow2(8 * l);
        let mut ints: Vec<BigUint> = vec![BigUint::from(0u32), BigUint::from(1u32), p - 1u32, p.clone(), p + 1u32, &full - 1u32];
        for sh in [1usize, 8, 64, 100, 127, 128, 129, 200, 255, 256] {
            let k = alpha::pow2(sh);
            for delta in [0u32, 1] {
                let v = &k * p;
                if v < full {
                    ints.push(&v + delta);
                    ints.push(&v - 1u32);
                }
            }
        }
        // every small multiple of p (+-1) that fits the block, alone and under a non-zero high part (any split point
        // hi || lo of the block that makes lo >= p needs a reduction of lo)
        let mut k = 1u32;
        while (p * k) < full {
            for hi in [BigUint::from(0u32), BigUint::from(1u32), alpha::pow2(127), alpha::pow2(128) - 1u32] {
                for delta in [0i32, 1, -1] {
                    let lo = if delta >= 0 { p * k + delta as u32 } else { p * k - 1u32 };
                    let v = (&hi << p.bits()) + &lo;
                    if v < full {
                        ints.push(v);
                    }
                    let v2 = (&hi << (8 * l - 128)) | &lo;
                    if v2 < full {
                        ints.push(v2);
                    }
                }
            }
            k += 1;
            if k > 12 {
                break;
            }
        }
        // hi/lo halves
        let half = 8 * l / 2;
        ints.push(alpha::pow2(half) - 1u32);
        ints.push((alpha::pow2(half) - 1u32) << half);
        ints.push(alpha::pow2(half));
        ints.push(alpha::pow2(half - 1));
        ints.push(alpha::pow2(8 * l - 1));
        for _ in 0..64 {
            ints.push(alpha::rand_bits(rng, 8 * l));
        }
        // every single byte position set to 0x80 / 0x01
        for b in 0..l {
            ints.push(BigUint::from(0x80u32) << (8 * b));
            ints.push(BigUint::from(0x01u32) << (8 * b));
        }
        alpha::dedup(ints)
            .into_iter()
            .map(|x| {
                let mut v = x.to_bytes_be();
                while v.len() < l {
                    v.insert(0, 0);
                }
                v
            })
            .collect()
    };
    let bq = mk_blocks(q(), 64, &mut rng);
    let br = mk_blocks(r(), 48, &mut rng);
    ctx.sweep(
        "from_okm.Fq",
        bq.len() as u64,
        |i| json!({"block": hex(&BigUint::from_bytes_be(&bq[i as usize]))}),
        |i| {
            let b = &bq[i as usize];
            let got = fq_int(&Fq::from_okm(GenericArray::from_slice(b)));
            if got != BigUint::from_bytes_be(b) % q() {
                return Err(Fail::new("Fq::from_okm != int(block) mod q"));
            }
            Ok("block")
        },
    );
    ctx.sweep(
        "from_okm.Fr",
        br.len() as u64,
        |i| json!({"block": hex(&BigUint::from_bytes_be(&br[i as usize]))}),
        |i| {
            let b = &br[i as usize];
            let mut got = fr_int(&Fr::from_okm(GenericArray::from_slice(b)));
            if inj && b[0] == 0x80 {
                got += 1u32;
            }
            if got != BigUint::from_bytes_be(b) % r() {
                return Err(Fail::new("Fr::from_okm != int(block) mod r"));
            }
            Ok("block")
        },
    );
    let nb = bq.len().min(ctx.tier.pick(40, 120));
    let rad = [nb as u64, nb as u64];
    ctx.sweep(
        "from_ro.Fq2",
        crate::infra::space(&rad),
        |i| {
            let d = unrank(i, &rad);
            json!({"block0": hex(&BigUint::from_bytes_be(&bq[d[0]])), "block1": hex(&BigUint::from_bytes_be(&bq[d[1]]))})
        },
        |i| {
            let d = unrank(i, &rad);
            let mut both = bq[d[0]].clone();
            both.extend_from_slice(&bq[d[1]]);
            let x = Fq2::from_ro(GenericArray::from_slice(&both));
            if fq_int(&x.c0) != BigUint::from_bytes_be(&bq[d[0]]) % q() || fq_int(&x.c1) != BigUint::from_bytes_be(&bq[d[1]]) % q() {
                return Err(Fail::new("Fq2::from_ro is not (block0 mod q) + (block1 mod q)*u"));
            }
            Ok("block pair")
        },
    );
    ctx.assume("SHA-256/512 and SHAKE128/256 from the sha2/sha3 crates are 'the hash the caller supplies' (not part of the subject); the reference uses one-shot digests over manually concatenated bytes");
    (
        "exploration",
        "full cross product per expander (XMD-SHA-256, XMD-SHA-512, XOF-SHAKE128, XOF-SHAKE256) of message lengths at every hash-block / padding / sponge-rate boundary x contents x tag lengths 0..255 at boundaries x requested lengths at block boundaries, the 255-block limit (8160/8161, 16320/16321) and 65535; hash_to_field for Fq, Fr, Fq2 with counts 0,1,2,3,5,17 and the largest count inside the limit; the block reduction on 64-/48-byte blocks: 0, 1, p-1, p, p+1, k*p-1, k*p, k*p+1 for k = 2^i, hi/lo half masks, every single byte position, all-ones, seeded; Fq2 on all block pairs; non-trivial = non-empty output",
    )
}
