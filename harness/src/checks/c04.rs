//! C04 — point decoding accepts exactly canonical encodings of subgroup points.
//! C05 — point encoding round-trips and is the canonical ZCash wire format.
use crate::conv::*;
use crate::infra::{guard, Ctx, Fail};
use crate::refmodel::zcash::{self, DecErr, WireField};
use crate::refmodel::*;
use crate::wire::*;
use pairing_plus::{CurveAffine, CurveProjective};
use serde_json::json;

pub fn hexb(b: &[u8]) -> String {
    b.iter().map(|x| format!("{:02x}", x)).collect()
}

fn decode_checks<C: WireCurve>(ctx: &Ctx, compressed: bool) -> (Vec<WireCase>, Membership<C::K>)
where
    C::K: WireField,
{
    let fmt = format!("{}.{}", C::NAME, if compressed { "compressed" } else { "uncompressed" });
    let mut rng = ctx.rng(&format!("c04.{}", fmt));
    let (cases, pts) = wire_alphabet::<C>(&mut rng, compressed, ctx.quick(), ctx.tier.pick(256, 20000));
    let c = C::curve();
    let mem = Membership::new(c.clone());
    mem.preload(&pts);
    let inj = ctx.injecting("C04");
    ctx.sweep(
        &format!("{}.decode", fmt),
        2 * cases.len() as u64,
        |i| json!({"format": fmt, "variant": if i % 2 == 0 {"into_affine"} else {"into_affine_unchecked"}, "class": cases[(i / 2) as usize].class, "bytes": hexb(&cases[(i / 2) as usize].bytes)}),
        |i| {
            let case = &cases[(i / 2) as usize];
            let checked = i % 2 == 0;
            let want = zcash::decode(&c, &case.bytes, compressed, checked, &|p| mem.test(p));
            let got = guard(|| C::lib_decode(&case.bytes, compressed, checked)).map_err(|m| Fail::new(format!("{}: decoding panicked: {}", fmt, m)))?;
            let mut got = match got {
                Ok(a) => Ok(C::pt_of_aff(&a)),
                Err(e) => Err(category(&e)),
            };
            if inj && case.class == "infinity with the sort flag" {
                got = Ok(Pt::Inf);
            }
            match (&want, &got) {
                (Ok(w), Ok(g)) => {
                    if w != g {
                        return Err(Fail::with(format!("{}: decoded to a different point ({})", fmt, case.class), json!({"got": C::show(g), "want": C::show(w)})));
                    }
                    Ok(if checked { "accepted (checked)" } else { "accepted (unchecked)" })
                }
                (Err(w), Err(g)) => {
                    if w != g {
                        return Err(Fail::new(format!("{}: rejection reports {:?} but the first failed validation is {:?} ({})", fmt, g, w, case.class)));
                    }
                    Ok(match w {
                        DecErr::Form => "rejected: form flag",
                        DecErr::Flags => "rejected: infinity/sort flags",
                        DecErr::Range => "rejected: coordinate range",
                        DecErr::Curve => "rejected: not on curve / no root",
                        DecErr::Subgroup => "rejected: not in subgroup",
                    })
                }
                (Ok(_), Err(g)) => Err(Fail::new(format!("{}: a canonical encoding was rejected with {:?} ({})", fmt, g, case.class))),
                (Err(w), Ok(_)) => Err(Fail::new(format!("{}: accepted a byte string that must be rejected with {:?} ({})", fmt, w, case.class))),
            }
        },
    );
    (cases, mem)
}

pub fn run_c04(ctx: &Ctx) -> (&'static str, &'static str) {
    for compressed in [true, false] {
        let _ = decode_checks::<RG1>(ctx, compressed);
        let _ = decode_checks::<RG2>(ctx, compressed);
    }
    ctx.assume("error categories are compared (form flag -> infinity/sort flags -> coordinate range -> curve -> subgroup), not messages nor which coordinate is named");
    (
        "exploration",
        "per format (48/96/96/192 bytes): all 8 values of the three flag bits x x-coordinate classes (x of subgroup points, of points of small prime order, of order l*r and full order, small x with / without a square root, 0, 1, seeded x; each Fq2 component separately at q-1, q, q+1, 2^381-1) x (uncompressed) y variants (correct, negated, y+1, each component out of range); infinity encodings with the wrong form flag, the sort flag and every single non-zero byte position; uniformly random strings and random bodies under plausible flags; each through into_affine and into_affine_unchecked against a decoder written from the format description, with [r]P = O on big integers; non-trivial = every string (class recorded)",
    )
}

fn encode_checks<C: WireCurve>(ctx: &Ctx)
where
    C::K: WireField,
{
    let name = C::NAME;
    let c = C::curve();
    let g = C::gen();
    // points: multiples 0..n of the generator (incremental reference addition), both roots for every x, alphabet points
    let n = ctx.tier.pick(300usize, 10000);
    let mut pts: Vec<Pt<C::K>> = vec![Pt::Inf];
    let mut acc = Pt::Inf;
    for _ in 0..n {
        acc = c.add(&acc, &g);
        pts.push(acc.clone());
        pts.push(c.neg(&acc));
    }
    // boundary members: most leading zero bytes in x, y closest to (q-1)/2
    let lz = |p: &Pt<C::K>| -> usize {
        match p {
            Pt::Aff(x, _) => zcash::encode(&Pt::Aff(x.clone(), x.clone()), true).iter().skip(1).take_while(|b| **b == 0).count(),
            _ => 0,
        }
    };
    let best = pts.iter().max_by_key(|p| lz(p)).cloned().unwrap();
    let mut rng = ctx.rng(&format!("c05.{}", name));
    let extra = C::points(&mut rng, 2, 2);
    for np in &extra {
        if np.in_subgroup {
            pts.push(np.p.clone());
        }
    }
    // curve points outside the subgroup whose y has a zero component (sort decided by the other component alone);
    // they round-trip through the unchecked decoder only
    let n_sub = pts.len();
    // alphabet points outside the subgroup (order 3 with x = 0, other small orders, l*r, full order), both roots
    for np in C::points(&mut rng, 2, 4) {
        if !np.in_subgroup && !np.p.is_inf() {
            pts.push(c.neg(&np.p));
            pts.push(np.p.clone());
        }
    }
    for (_, x, y) in C::tie_points() {
        pts.push(Pt::Aff(x.clone(), y.clone()));
        pts.push(Pt::Aff(x, y.neg()));
    }
    let l2 = C::K::from_u64(7);
    let inj = ctx.injecting("C05");
    ctx.sweep(
        &format!("{}.encode", name),
        2 * pts.len() as u64,
        |i| json!({"group": name, "compressed": i % 2 == 0, "point": C::show(&pts[(i / 2) as usize])}),
        |i| {
            let p = &pts[(i / 2) as usize];
            let compressed = i % 2 == 0;
            let a = C::aff_of(p);
            let mut got = C::lib_encode(&a, compressed);
            let want = zcash::encode(p, compressed);
            if inj && compressed && i % 64 == 2 {
                got[0] ^= 0x20;
            }
            if got.len() != zcash::enc_len::<C::K>(compressed) {
                return Err(Fail::new(format!("{}: encoding has length {}", name, got.len())));
            }
            if got != want {
                return Err(Fail::with(format!("{}: encoding is not the ZCash wire format", name), json!({"got": hexb(&got), "want": hexb(&want)})));
            }
            // round trip through both decoders
            for checked in [true, false] {
                if checked && (i / 2) as usize >= n_sub {
                    continue;
                }
                match C::lib_decode(&got, compressed, checked) {
                    Ok(b) if C::pt_of_aff(&b) == *p => {}
                    Ok(_) => return Err(Fail::new(format!("{}: decode(encode(P)) != P", name))),
                    Err(e) => return Err(Fail::new(format!("{}: decode(encode(P)) failed: {}", name, e))),
                }
            }
            // a projective representative encodes to the same bytes
            let rep = C::rep(p, &l2);
            if C::lib_encode(&rep.into_affine(), compressed) != want {
                return Err(Fail::new(format!("{}: a non-normalised representative encodes differently", name)));
            }
            let sort = !p.is_inf() && compressed && (got[0] & 0x20 != 0);
            Ok(if p.is_inf() { "identity" } else if sort { "sort flag set" } else { "sort flag clear / uncompressed" })
        },
    );
    let _ = best;
    // the identity in EVERY affine representation: the infinity marker set and arbitrary values left in the coordinate slots
    // (what `as_tuple_mut` / a conversion that does not clear the slots leaves behind): the encodings are the two fixed
    // identity strings whatever the slots hold, and decode back to the identity
    {
        let one = C::K::one();
        let mut slots: Vec<(C::K, C::K)> = vec![
            (C::K::zero(), one.clone()),
            (C::K::zero(), one.neg()),
            (C::K::zero(), C::K::zero()),
            (one.clone(), one.clone()),
            (one.neg(), one.neg()),
        ];
        for p in pts.iter().skip(1).take(6).chain(pts[n_sub..].iter().take(8)) {
            if let Pt::Aff(x, y) = p {
                slots.push((x.clone(), y.clone()));
                slots.push((x.clone(), y.neg()));
                slots.push((C::K::zero(), y.clone()));
                slots.push((C::K::zero(), y.neg()));
            }
        }
        ctx.sweep(
            &format!("{}.encode.identity_representations", name),
            2 * slots.len() as u64,
            |i| json!({"group": name, "compressed": i % 2 == 0, "slots": [C::showk(&slots[(i / 2) as usize].0), C::showk(&slots[(i / 2) as usize].1)]}),
            |i| {
                let (x, y) = &slots[(i / 2) as usize];
                let compressed = i % 2 == 0;
                let a = C::identity_with(x, y);
                let got = guard(|| C::lib_encode(&a, compressed)).map_err(Fail::new)?;
                let want = zcash::encode(&Pt::<C::K>::Inf, compressed);
                if got != want {
                    return Err(Fail::with(format!("{}: the identity, with other values left in its coordinate slots, does not encode to the identity string", name), json!({"got": hexb(&got), "want": hexb(&want)})));
                }
                for checked in [true, false] {
                    match C::lib_decode(&got, compressed, checked) {
                        Ok(b) if C::pt_of_aff(&b).is_inf() => {}
                        _ => return Err(Fail::new(format!("{}: decode(encode(identity)) is not the identity", name))),
                    }
                }
                Ok("identity representation")
            },
        );
    }
    // reverse direction: every accepted byte string re-encodes to itself (non-malleability)
    for compressed in [true, false] {
        let fmt = format!("{}.{}", name, if compressed { "compressed" } else { "uncompressed" });
        let mut rng = ctx.rng(&format!("c04.{}", fmt));
        let (cases, ptsa) = wire_alphabet::<C>(&mut rng, compressed, ctx.quick(), ctx.tier.pick(64, 1024));
        let mem = Membership::new(c.clone());
        mem.preload(&ptsa);
        ctx.sweep(
            &format!("{}.reencode", fmt),
            cases.len() as u64,
            |i| json!({"format": fmt, "class": cases[i as usize].class, "bytes": hexb(&cases[i as usize].bytes)}),
            |i| {
                let case = &cases[i as usize];
                match guard(|| C::lib_decode(&case.bytes, compressed, true)).map_err(Fail::new)? {
                    Err(_) => Ok(""),
                    Ok(a) => {
                        let back = C::lib_encode(&a, compressed);
                        if back != case.bytes {
                            return Err(Fail::with(format!("{}: an accepted byte string is not the encoding of the point it decodes to (second preimage)", fmt), json!({"reencoded": hexb(&back)})));
                        }
                        Ok("accepted string re-encodes to itself")
                    }
                }
            },
        );
    }
}

fn dat_vectors<C: WireCurve>(ctx: &Ctx, file: &str, compressed: bool)
where
    C::K: WireField,
{
    let path = format!("{}/src/bls12_381/tests/{}", crate::infra::repo_root(), file);
    let data = match std::fs::read(&path) {
        Ok(d) => d,
        Err(_) => {
            ctx.note(format!("pinned vector file {} not present; skipped", path));
            return;
        }
    };
    let len = zcash::enc_len::<C::K>(compressed);
    let c = C::curve();
    let g = C::gen();
    let chunks: Vec<&[u8]> = data.chunks(len).collect();
    let mut pts = vec![Pt::Inf];
    for _ in 1..chunks.len() {
        let next = c.add(pts.last().unwrap(), &g);
        pts.push(next);
    }
    ctx.sweep(
        &format!("{}.pinned_vectors", file),
        chunks.len() as u64,
        |i| json!({"file": file, "index": i}),
        |i| {
            let want = zcash::encode(&pts[i as usize], compressed);
            if chunks[i as usize] != &want[..] {
                return Err(Fail::new(format!("reference encoder disagrees with the repository's pinned vector {} #{} (model inconsistency)", file, i)));
            }
            match C::lib_decode(chunks[i as usize], compressed, true) {
                Ok(a) => {
                    if C::pt_of_aff(&a) != pts[i as usize] || C::lib_encode(&a, compressed) != chunks[i as usize] {
                        return Err(Fail::new(format!("pinned vector {} #{} does not round-trip", file, i)));
                    }
                }
                Err(e) => return Err(Fail::new(format!("pinned vector {} #{} rejected: {}", file, i, e))),
            }
            Ok("pinned vector")
        },
    );
}

pub fn run_c05(ctx: &Ctx) -> (&'static str, &'static str) {
    encode_checks::<RG1>(ctx);
    encode_checks::<RG2>(ctx);
    dat_vectors::<RG1>(ctx, "g1_compressed_valid_test_vectors.dat", true);
    dat_vectors::<RG1>(ctx, "g1_uncompressed_valid_test_vectors.dat", false);
    dat_vectors::<RG2>(ctx, "g2_compressed_valid_test_vectors.dat", true);
    dat_vectors::<RG2>(ctx, "g2_uncompressed_valid_test_vectors.dat", false);
    ctx.assume("the reference encoder is written from the format description (big-endian, c1 before c0, flags in the top three bits, sort flag iff y is the lexicographically larger root) and is itself cross-checked against the repository's pinned vector files");
    (
        "exploration",
        "points: the identity, [k]g and -[k]g for k = 1..300 (quick) / 10000 (thorough) (both roots of every x, so both sort-flag values), alphabet points; each in affine form and as a non-normalised representative, both encodings: fixed length, byte-for-byte equal to the reference ZCash encoder, decode(encode(P)) = P through both decoders; reverse direction on every byte string of the C04 enumeration that the checked decoder accepts and on the four pinned vector files: encode(decode(s)) = s; non-trivial = non-identity point / accepted string",
    )
}
