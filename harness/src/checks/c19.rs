//! C19 — stream (de)serialization round-trips, validates and consumes exact lengths.
//! Environment answers of the Read / Write doubles are enumerated with a deviation bound (DESIGN.md M2).
use crate::alpha;
use crate::checks::c04::hexb;
use crate::conv::*;
use crate::infra::{guard, unrank, Ctx, Fail};
use crate::refmodel::zcash::{self, WireField};
use crate::refmodel::*;
use crate::wire::*;
use num_bigint::BigUint;
use pairing_plus::bls12_381::{Fq12, Fr, G1Affine, G2Affine, G1, G2};
use pairing_plus::serdes::SerDes;
use pairing_plus::CurveProjective;
use serde_json::json;
use std::io::{self, Read, Write};

#[derive(Clone, Copy, Debug, PartialEq, Eq)]
pub enum RAns {
    All,
    One,
    K(usize),
    Interrupted,
    ErrOther,
    Eof,
}
pub struct ScriptReader<'a> {
    data: &'a [u8],
    pos: usize,
    script: &'a [(usize, RAns)],
    call: usize,
    pub hard_error: bool,
    pub eof_with_pending: bool,
    pub calls: usize,
}
impl<'a> ScriptReader<'a> {
    pub fn new(data: &'a [u8], script: &'a [(usize, RAns)]) -> Self {
        ScriptReader { data, pos: 0, script, call: 0, hard_error: false, eof_with_pending: false, calls: 0 }
    }
    pub fn consumed(&self) -> usize {
        self.pos
    }
}
impl<'a> Read for ScriptReader<'a> {
    fn read(&mut self, buf: &mut [u8]) -> io::Result<usize> {
        let ans = self.script.iter().find(|(c, _)| *c == self.call).map(|x| x.1).unwrap_or(RAns::All);
        self.call += 1;
        self.calls += 1;
        assert!(self.calls < 100_000, "reader double: runaway read loop");
        let rem = self.data.len() - self.pos;
        let n = match ans {
            RAns::All => buf.len().min(rem),
            RAns::One => buf.len().min(rem).min(1),
            RAns::K(k) => buf.len().min(rem).min(k),
            RAns::Interrupted => return Err(io::Error::new(io::ErrorKind::Interrupted, "injected EINTR")),
            RAns::ErrOther => {
                self.hard_error = true;
                return Err(io::Error::new(io::ErrorKind::Other, "injected I/O error"));
            }
            RAns::Eof => 0,
        };
        if n == 0 && !buf.is_empty() {
            self.eof_with_pending = true;
        }
        buf[..n].copy_from_slice(&self.data[self.pos..self.pos + n]);
        self.pos += n;
        Ok(n)
    }
}
#[derive(Clone, Copy, Debug, PartialEq, Eq)]
pub enum WAns {
    All,
    One,
    Interrupted,
    Err,
    Zero,
}
pub struct ScriptWriter<'a> {
    pub out: Vec<u8>,
    script: &'a [(usize, WAns)],
    call: usize,
    pub hard_error: bool,
}
impl<'a> Write for ScriptWriter<'a> {
    fn write(&mut self, buf: &[u8]) -> io::Result<usize> {
        let ans = self.script.iter().find(|(c, _)| *c == self.call).map(|x| x.1).unwrap_or(WAns::All);
        self.call += 1;
        assert!(self.call < 100_000, "writer double: runaway write loop");
        let n = match ans {
            WAns::All => buf.len(),
            WAns::One => buf.len().min(1),
            WAns::Interrupted => return Err(io::Error::new(io::ErrorKind::Interrupted, "injected EINTR")),
            WAns::Err => {
                self.hard_error = true;
                return Err(io::Error::new(io::ErrorKind::Other, "injected I/O error"));
            }
            WAns::Zero => {
                if !buf.is_empty() {
                    self.hard_error = true; // write_all turns Ok(0) into WriteZero
                }
                0
            }
        };
        self.out.extend_from_slice(&buf[..n]);
        Ok(n)
    }
    fn flush(&mut self) -> io::Result<()> {
        Ok(())
    }
}

/// all scripts with <= max_dev deviations at call indices 0..horizon
fn scripts<A: Copy>(menu: &[A], horizon: usize, max_dev: usize) -> Vec<Vec<(usize, A)>> {
    let mut v: Vec<Vec<(usize, A)>> = vec![vec![]];
    for i in 0..horizon {
        for a in menu {
            v.push(vec![(i, *a)]);
            if max_dev >= 2 {
                for j in (i + 1)..horizon {
                    for b in menu {
                        v.push(vec![(i, *a), (j, *b)]);
                    }
                }
            }
        }
    }
    v
}

/// one serializable type
struct Kind<T> {
    name: &'static str,
    /// values with their reference bytes per flag value (false, true)
    values: Vec<(String, T, [Vec<u8>; 2])>,
    /// byte streams that must be rejected (name, bytes, flag)
    rejects: Vec<(String, Vec<u8>, bool)>,
    eq: fn(&T, &T) -> bool,
    /// default-environment read calls for a full value (upper bound for the deviation horizon)
    read_calls: [usize; 2],
    write_calls: [usize; 2],
}

fn kind_checks<T: SerDes + Clone + Send + Sync>(ctx: &Ctx, k: &Kind<T>, env_values: usize) {
    let name = k.name;
    let inj = ctx.injecting("C19");
    // ---- serialize: bytes and length
    let rad = [k.values.len() as u64, 2];
    ctx.sweep(
        &format!("{}.serialize", name),
        crate::infra::space(&rad),
        |i| {
            let d = unrank(i, &rad);
            json!({"type": name, "value": k.values[d[0]].0, "compressed_flag": d[1] == 1})
        },
        |i| {
            let d = unrank(i, &rad);
            let (_, v, bytes) = &k.values[d[0]];
            let flag = d[1] == 1;
            let mut buf = vec![];
            guard(|| v.serialize(&mut buf, flag)).map_err(|m| Fail::new(format!("{}: serialize panicked: {}", name, m)))?.map_err(|e| Fail::new(format!("{}: serialize failed: {}", name, e)))?;
            if buf != bytes[d[1]] {
                return Err(Fail::with(format!("{}: serialized bytes differ from the reference encoding (length {} vs {})", name, buf.len(), bytes[d[1]].len()), json!({"got": hexb(&buf)})));
            }
            Ok("serialize")
        },
    );
    // ---- deserialize: valid, every truncation, trailing data, exact consumption
    let rad = [k.values.len() as u64, 2];
    ctx.sweep(
        &format!("{}.deserialize_streams", name),
        crate::infra::space(&rad),
        |i| {
            let d = unrank(i, &rad);
            json!({"type": name, "value": k.values[d[0]].0, "compressed_flag": d[1] == 1, "streams": "valid, every truncation, trailing bytes"})
        },
        |i| {
            let d = unrank(i, &rad);
            let (_, v, bytes) = &k.values[d[0]];
            let flag = d[1] == 1;
            let b = &bytes[d[1]];
            // valid with trailing data
            let mut stream = b.clone();
            stream.extend_from_slice(&[0xAA; 40]);
            let mut rd = ScriptReader::new(&stream, &[]);
            let got = guard(|| T::deserialize(&mut rd, flag)).map_err(|m| Fail::new(format!("{}: deserialize panicked: {}", name, m)))?;
            match got {
                Ok(x) => {
                    if !(k.eq)(&x, v) {
                        return Err(Fail::new(format!("{}: deserialize(serialize(v)) != v", name)));
                    }
                }
                Err(e) => return Err(Fail::new(format!("{}: deserialize rejected a serialized value: {}", name, e))),
            }
            let mut consumed = rd.consumed();
            if inj && b.len() == 96 {
                consumed += 1;
            }
            if consumed != b.len() {
                return Err(Fail::new(format!("{}: reading consumed {} bytes instead of exactly {}", name, consumed, b.len())));
            }
            // every truncation
            for cut in 0..b.len() {
                let mut rd = ScriptReader::new(&b[..cut], &[]);
                let r = guard(|| T::deserialize(&mut rd, flag)).map_err(|m| Fail::new(format!("{}: deserialize panicked on a stream truncated to {} bytes: {}", name, cut, m)))?;
                if r.is_ok() {
                    return Err(Fail::new(format!("{}: deserialize returned a value for a stream truncated to {} of {} bytes", name, cut, b.len())));
                }
            }
            crate::infra::bump(b.len() as u64);
            Ok("valid + truncations")
        },
    );
    // ---- streams that must be rejected
    ctx.sweep(
        &format!("{}.deserialize_rejects", name),
        k.rejects.len() as u64,
        |i| json!({"type": name, "stream": k.rejects[i as usize].0, "compressed_flag": k.rejects[i as usize].2, "bytes": hexb(&k.rejects[i as usize].1)}),
        |i| {
            let (what, bytes, flag) = &k.rejects[i as usize];
            let mut stream = bytes.clone();
            stream.extend_from_slice(&[0x55; 8]);
            let mut rd = ScriptReader::new(&stream, &[]);
            let r = guard(|| T::deserialize(&mut rd, *flag)).map_err(|m| Fail::new(format!("{}: deserialize panicked on [{}]: {}", name, what, m)))?;
            if r.is_ok() {
                return Err(Fail::new(format!("{}: deserialize returned a value for [{}]", name, what)));
            }
            // (how many bytes a FAILING read consumes is not promised by the property; only success fixes the count)
            Ok("rejected stream")
        },
    );
    // ---- environment answers: reader
    let max_dev = ctx.tier.pick(1, 2);
    let rmenu = [RAns::One, RAns::K(8), RAns::K(47), RAns::Interrupted, RAns::ErrOther, RAns::Eof];
    let wmenu = [WAns::One, WAns::Interrupted, WAns::Err, WAns::Zero];
    for flag_i in 0..2usize {
        let flag = flag_i == 1;
        let horizon = (k.read_calls[flag_i] + 3).min(ctx.tier.pick(16, 80));
        let rs = scripts(&rmenu, horizon, max_dev);
        let nv = env_values.min(k.values.len());
        // inputs: each selected value's valid stream, plus one rejected stream
        let rad = [rs.len() as u64, nv as u64 + 1];
        ctx.sweep(
            &format!("{}.reader_environment.flag{}", name, flag_i),
            crate::infra::space(&rad),
            |i| {
                let d = unrank(i, &rad);
                json!({"type": name, "compressed_flag": flag, "script": format!("{:?}", rs[d[0]]), "input": if d[1] < nv { k.values[d[1] * k.values.len() / nv].0.clone() } else { "a rejected stream".into() }})
            },
            |i| {
                let d = unrank(i, &rad);
                let script = &rs[d[0]];
                let (bytes, expect_val): (Vec<u8>, Option<&T>) = if d[1] < nv {
                    let (_, v, b) = &k.values[d[1] * k.values.len() / nv];
                    (b[flag_i].clone(), Some(v))
                } else {
                    match k.rejects.iter().find(|r| r.2 == flag) {
                        Some(r) => (r.1.clone(), None),
                        None => return Ok(""),
                    }
                };
                let mut stream = bytes.clone();
                stream.extend_from_slice(&[0xEE; 16]);
                let mut rd = ScriptReader::new(&stream, script);
                let got = guard(|| T::deserialize(&mut rd, flag)).map_err(|m| Fail::new(format!("{}: deserialize panicked under reader script {:?}: {}", name, script, m)))?;
                let faulted = rd.hard_error || rd.eof_with_pending;
                match (got, expect_val, faulted) {
                    (Ok(_), _, true) => Err(Fail::new(format!("{}: deserialize returned a value although the reader reported an error / end of stream (script {:?})", name, script))),
                    (Err(_), _, true) => Ok("injected fault -> error"),
                    (Ok(x), Some(v), false) => {
                        if !(k.eq)(&x, v) {
                            return Err(Fail::new(format!("{}: short reads / EINTR changed the decoded value (script {:?})", name, script)));
                        }
                        if rd.consumed() != bytes.len() {
                            return Err(Fail::new(format!("{}: consumed {} bytes instead of {} under script {:?}", name, rd.consumed(), bytes.len(), script)));
                        }
                        Ok(if script.is_empty() { "default environment" } else { "short reads / EINTR tolerated" })
                    }
                    (Err(e), Some(_), false) => Err(Fail::new(format!("{}: a valid stream was rejected under benign reader answers {:?}: {}", name, script, e))),
                    (Ok(_), None, false) => Err(Fail::new(format!("{}: an invalid stream was accepted under reader answers {:?}", name, script))),
                    (Err(_), None, false) => Ok("invalid stream rejected"),
                }
            },
        );
        // writer
        let whorizon = (k.write_calls[flag_i] + 2).min(12);
        let ws = scripts(&wmenu, whorizon, max_dev);
        let rad = [ws.len() as u64, nv as u64];
        ctx.sweep(
            &format!("{}.writer_environment.flag{}", name, flag_i),
            crate::infra::space(&rad),
            |i| {
                let d = unrank(i, &rad);
                json!({"type": name, "compressed_flag": flag, "script": format!("{:?}", ws[d[0]]), "value": k.values[d[1] * k.values.len() / nv].0})
            },
            |i| {
                let d = unrank(i, &rad);
                let script = &ws[d[0]];
                let (_, v, b) = &k.values[d[1] * k.values.len() / nv];
                let mut wr = ScriptWriter { out: vec![], script, call: 0, hard_error: false };
                let r = guard(|| v.serialize(&mut wr, flag)).map_err(|m| Fail::new(format!("{}: serialize panicked under writer script {:?}: {}", name, script, m)))?;
                match (r, wr.hard_error) {
                    (Ok(()), true) => Err(Fail::new(format!("{}: serialize reported success although the writer failed (script {:?})", name, script))),
                    (Err(_), true) => Ok("injected fault -> error"),
                    (Ok(()), false) => {
                        if wr.out != b[flag_i] {
                            return Err(Fail::new(format!("{}: short writes / EINTR changed the bytes written (script {:?})", name, script)));
                        }
                        Ok(if script.is_empty() { "default environment" } else { "short writes / EINTR tolerated" })
                    }
                    (Err(e), false) => Err(Fail::new(format!("{}: serialize failed under benign writer answers {:?}: {}", name, script, e))),
                }
            },
        );
        let n_scripts = (rs.len() + ws.len()) as u64;
        ctx.add_mc(n_scripts, n_scripts * (nv as u64 + 1), n_scripts * (nv as u64 + 1), vec![json!({"system": format!("{} (de)serializer under scripted Read/Write doubles, flag {}", name, flag), "reader_scripts": rs.len(), "writer_scripts": ws.len(), "deviation_bound": max_dev, "reader_horizon_calls": horizon})]);
    }
}

fn be_bytes(x: &BigUint, len: usize) -> Vec<u8> {
    let b = x.to_bytes_be();
    let mut v = vec![0u8; len - b.len()];
    v.extend_from_slice(&b);
    v
}

fn point_kind<C: WireCurve, T: SerDes + Clone>(ctx: &Ctx, name: &'static str, make: fn(&Pt<C::K>, &C::K) -> T, eq: fn(&T, &T) -> bool) -> Kind<T>
where
    C::K: WireField,
{
    let c = C::curve();
    let g = C::gen();
    let mut rng = ctx.rng(&format!("c19.{}", name));
    let mut pts: Vec<Pt<C::K>> = vec![Pt::Inf, g.clone(), c.neg(&g), c.dbl(&g)];
    let mut acc = c.dbl(&g);
    for _ in 0..ctx.tier.pick(6, 40) {
        acc = c.add(&acc, &g);
        pts.push(acc.clone());
        pts.push(c.neg(&acc));
    }
    // points whose leading payload bits are all zero: the first byte of the encoding is then exactly the flag bits
    // (0x80 / 0xa0 compressed, 0x00 uncompressed), the boundary of every test written on that byte
    let mut found = 0;
    for _ in 0..2000 {
        if found >= ctx.tier.pick(2, 6) {
            break;
        }
        acc = c.add(&acc, &g);
        if zcash::encode(&acc, true)[0] & 0x1f == 0 {
            found += 1;
            pts.push(acc.clone());
            pts.push(c.neg(&acc));
        }
    }
    let lams = [C::K::one(), C::K::from_u64(2), C::K::from_u64(0xabcdef)];
    let mut values = vec![];
    for (i, p) in pts.iter().enumerate() {
        let l = &lams[i % 3];
        values.push((format!("{} (lambda #{})", C::show(p), i % 3), make(p, l), [zcash::encode(p, false), zcash::encode(p, true)]));
    }
    // rejects: flag mismatch, and every byte string the checked decoders reject
    let mut rejects = vec![];
    for p in pts.iter().take(4) {
        rejects.push(("compressed bytes read with flag = uncompressed".into(), zcash::encode(p, true), false));
        rejects.push(("uncompressed bytes read with flag = compressed".into(), zcash::encode(p, false), true));
    }
    for compressed in [true, false] {
        let (cases, ptsa) = wire_alphabet::<C>(&mut rng, compressed, true, ctx.tier.pick(32, 256));
        let mem = Membership::new(c.clone());
        mem.preload(&ptsa);
        let bad = crate::infra::par_map(cases.len(), |i| zcash::decode(&c, &cases[i].bytes, compressed, true, &|p| mem.test(p)).is_err());
        for (case, b) in cases.into_iter().zip(bad) {
            if b {
                rejects.push((format!("rejected point encoding: {}", case.class), case.bytes, compressed));
            }
        }
    }
    let cl = zcash::enc_len::<C::K>(true);
    let _ = cl;
    Kind { name, values, rejects, eq, read_calls: [2, 1], write_calls: [1, 1] }
}

pub fn run(ctx: &Ctx) -> (&'static str, &'static str) {
    let mut rng = ctx.rng("c19");
    // ---- Fr
    {
        let ints = alpha::field_values(r(), 4, &mut rng, 8);
        let values: Vec<(String, Fr, [Vec<u8>; 2])> = ints.iter().step_by(ctx.tier.pick(2, 1)).map(|x| (hex(x), fr(x), [be_bytes(x, 32), be_bytes(x, 32)])).collect();
        let mut rejects = vec![];
        for x in [r().clone(), r() + 1u32, alpha::pow2(255), alpha::pow2(256) - 1u32, (r() << 1) % alpha::pow2(256)] {
            rejects.push((format!("non-reduced scalar {}", hex(&x)), be_bytes(&x, 32), true));
            rejects.push((format!("non-reduced scalar {}", hex(&x)), be_bytes(&x, 32), false));
        }
        kind_checks(ctx, &Kind { name: "Fr", values, rejects, eq: |a, b| a == b, read_calls: [4, 4], write_calls: [4, 4] }, ctx.tier.pick(4, 8));
    }
    // ---- Fq12
    {
        let q = q();
        let mut els: Vec<Vec<Q1>> = vec![vec![Q1::zero(); 12], { let mut c = vec![Q1::zero(); 12]; c[0] = Q1::one(); c }];
        for m in [0b1u32, 1 << 11, 0b101010101010, 0b010101010101, 0xfff] {
            els.push((0..12).map(|i| if (m >> i) & 1 == 1 { Q1::new(alpha::rand_below(&mut rng, q)) } else { Q1::zero() }).collect());
        }
        els.push((0..12).map(|i| if i % 2 == 0 { Q1::new(q - 1u32) } else { Q1::from_u64(i as u64) }).collect());
        for _ in 0..ctx.tier.pick(4, 24) {
            els.push((0..12).map(|_| Q1::new(alpha::rand_below(&mut rng, q))).collect());
        }
        let enc = |c: &Vec<Q1>| -> Vec<u8> { c.iter().flat_map(|x| be_bytes(x.int(), 48)).collect() };
        let values: Vec<(String, Fq12, [Vec<u8>; 2])> = els.iter().map(|c| (format!("{:?}", c.iter().map(|x| x.int().bits()).collect::<Vec<_>>()), fq12_of(&q12_from_coeffs(c)), [enc(c), enc(c)])).collect();
        let mut rejects = vec![];
        let base = enc(&els[els.len() - 1]);
        for pos in 0..12 {
            for v in [q.clone(), alpha::pow2(381), alpha::pow2(384) - 1u32] {
                let mut b = base.clone();
                b[pos * 48..(pos + 1) * 48].copy_from_slice(&be_bytes(&v, 48));
                rejects.push((format!("coefficient {} not reduced ({})", pos, hex(&v)), b, pos % 2 == 0));
            }
        }
        kind_checks(ctx, &Kind { name: "Fq12", values, rejects, eq: |a, b| a == b, read_calls: [72, 72], write_calls: [1, 1] }, ctx.tier.pick(2, 4));
    }
    // ---- points
    let k = point_kind::<RG1, G1>(ctx, "G1", |p, l| RG1::rep(p, l), |a, b| a == b && a.is_normalized() == b.is_normalized() || a == b);
    kind_checks(ctx, &k, ctx.tier.pick(3, 6));
    let k = point_kind::<RG1, G1Affine>(ctx, "G1Affine", |p, _| RG1::aff_of(p), |a, b| a == b);
    kind_checks(ctx, &k, ctx.tier.pick(3, 6));
    let k = point_kind::<RG2, G2>(ctx, "G2", |p, l| RG2::rep(p, l), |a, b| a == b);
    kind_checks(ctx, &k, ctx.tier.pick(3, 6));
    let k = point_kind::<RG2, G2Affine>(ctx, "G2Affine", |p, _| RG2::aff_of(p), |a, b| a == b);
    kind_checks(ctx, &k, ctx.tier.pick(3, 6));
    ctx.assume("a failing read may consume fewer bytes than the encoding length; only success requires exact consumption");
    ctx.assume("Interrupted and short reads/writes are benign environment answers (std read_exact / write_all semantics); Err(Other), end of stream and Ok(0) writes are faults that must surface as Err");
    (
        "model_checking",
        "values: Fr boundary alphabet, Fq12 sparsity masks / boundary coefficients / seeded, G1/G2 points ([k]g, -[k]g, identity) as projective representatives and affine, both flag values: bytes and length against the reference encoders; reading: the valid stream with trailing bytes (exact consumption), EVERY truncation length, flag mismatch, non-reduced scalars and coefficients (each of the 12 positions), every byte string of the C04 enumeration that the checked decoders reject; environment: Read and Write doubles answering each call from {all, 1 byte, 8 bytes, 47 bytes, Interrupted, Err(Other), EOF} / {all, 1 byte, Interrupted, Err, Ok(0)}, ALL answer sequences with <= 1 (quick) / 2 (thorough) deviations from the default within the call horizon, on several values and a rejected stream per type and flag; non-trivial = every stream",
    )
}
