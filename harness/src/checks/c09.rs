//! C09 — Fq2/Fq6/Fq12 are the stated tower; Frobenius and the sparse products are exact.
use crate::alpha;
use num_bigint::BigUint;
use crate::conv::*;
use crate::infra::{unrank, Ctx, Fail};
use crate::refmodel::*;
use ff::Field;
use pairing_plus::bls12_381::{Fq12, Fq2, Fq6};
use serde_json::{json, Value};
use std::collections::HashSet;
use std::fmt::Debug;

fn fq_small_alphabet(ctx: &Ctx, n_seeded: usize) -> Vec<Q1> {
    let q = q();
    let mut rng = ctx.rng("c09.fq");
    let mut v = vec![
        Q1::zero(),
        Q1::one(),
        Q1::one().neg(),
        Q1::from_u64(2),
        Q1::new((q - 1u32) >> 1),
        Q1::new(alpha::pow2(384) % q),
        Q1::from_u64(2).neg(),
        Q1::from_u64(3),
    ];
    for _ in 0..n_seeded {
        v.push(Q1::new(alpha::rand_below(&mut rng, q)));
    }
    let mut seen = HashSet::new();
    v.retain(|x| seen.insert(x.clone()));
    v
}

/// Frobenius powers that do not survive a narrowing of the `usize` argument (to 8, 16, 32 bits or to a signed type): for each,
/// k mod 12 (and mod 6, mod 2 where it matters) differs from the residue of the truncated value
fn wide_powers() -> Vec<usize> {
    vec![256 + 1, 65536, 65536 + 1, (1usize << 31) + 1, 1usize << 32, (1usize << 32) + 1, (1usize << 32) + 5, (1usize << 63) + 7, usize::MAX - 1, usize::MAX]
}

/// Operands CONSTRUCTED so that one coordinate of the RESULT has a prescribed in-memory (Montgomery) form: q-1, q-2, values
/// that share the top limb(s) of q, 2^380, 1 ... A hand-written reduction, a quotient estimate taken from the top limb, or a
/// lazily reduced accumulator goes wrong exactly where the value to be reduced sits next to a multiple of q.  For an output
/// coordinate j and a free input coordinate i the coordinate is a polynomial of degree <= 2 in the free value t: three
/// reference evaluations give its coefficients, t is solved for (a square root where needed), the reference confirms the
/// construction, and then the library's product / square on these operands is compared with the reference in all coordinates.
fn prescribed_outputs<S, R>(ctx: &Ctx, name: &'static str, ncoef: usize, from_coeffs: fn(&[Q1]) -> R, coeffs: fn(&R) -> Vec<Q1>, to_s: fn(&R) -> S, of_s: fn(&S) -> R, seed_a: &[Q1], seed_b: &[Q1])
where
    S: Field + Sync + Send,
    R: RF + Debug,
{
    let q = q();
    let rr = alpha::pow2(384) % q;
    let rinv = Q1::new(rr).inv().unwrap();
    let top = (q >> 320) << 320;
    let top2 = (q >> 256) << 256;
    let raws: Vec<BigUint> = vec![q - 1u32, q - 2u32, q - alpha::pow2(64), top.clone(), &top + 1u32, &top - 1u32, top2.clone(), alpha::pow2(380), BigUint::from(1u32), (q - 1u32) >> 1];
    let targets: Vec<Q1> = raws.iter().map(|x| Q1::new(x % q).mul(&rinv)).collect();
    let two_inv = Q1::from_u64(2).inv().unwrap();
    // (op, output coordinate, target index)
    let rad = [2u64, ncoef as u64, targets.len() as u64];
    ctx.sweep(
        &format!("{}.prescribed_output_coordinates", name),
        crate::infra::space(&rad),
        |i| {
            let d = unrank(i, &rad);
            json!({"op": (["mul", "square"][d[0]]), "output_coordinate": d[1], "montgomery_form_of_that_coordinate": hex(&raws[d[2]])})
        },
        |i| {
            let d = unrank(i, &rad);
            let (op, j, target) = (d[0], d[1], &targets[d[2]]);
            let apply = |a: &R, b: &R| -> R { if op == 0 { a.mul(b) } else { a.sq() } };
            let b = from_coeffs(seed_b);
            // try free input coordinates until the equation is solvable
            for free in (0..ncoef).map(|k| (j + k) % ncoef) {
                let with_t = |t: &Q1| -> R {
                    let mut c = seed_a.to_vec();
                    c[free] = t.clone();
                    from_coeffs(&c)
                };
                let f = |t: &Q1| -> Q1 { coeffs(&apply(&with_t(t), &b))[j].clone() };
                let (f0, f1, f2) = (f(&Q1::zero()), f(&Q1::one()), f(&Q1::from_u64(2)));
                let a2 = f2.sub(&f1.dbl()).add(&f0).mul(&two_inv);
                let b1 = f1.sub(&f0).sub(&a2);
                let c0 = f0.sub(target);
                let t = if a2.is_zero() {
                    match b1.inv() {
                        Some(bi) => c0.neg().mul(&bi),
                        None => continue,
                    }
                } else {
                    let disc = b1.sq().sub(&Q1::from_u64(4).mul(&a2).mul(&c0));
                    match disc.sqrt() {
                        Some(sd) => sd.sub(&b1).mul(&a2.dbl().inv().unwrap()),
                        None => continue,
                    }
                };
                let a = with_t(&t);
                let want = apply(&a, &b);
                if coeffs(&want)[j] != *target {
                    return Err(Fail::new(format!("harness: construction of a prescribed output coordinate failed ({})", name)));
                }
                let (sa, sb) = (to_s(&a), to_s(&b));
                let mut got = sa;
                if op == 0 {
                    got.mul_assign(&sb);
                } else {
                    got.square();
                }
                if of_s(&got) != want {
                    return Err(Fail::new(format!("{} {} differs from the quotient ring on operands whose result has coordinate {} = (a prescribed value next to a multiple of q in Montgomery form)", name, ["mul_assign", "square"][op], j)));
                }
                // the commuted product as well
                if op == 0 {
                    let mut g2 = sb;
                    g2.mul_assign(&sa);
                    if of_s(&g2) != want {
                        return Err(Fail::new(format!("{} mul_assign (operands swapped) differs from the quotient ring on operands with a prescribed result coordinate", name)));
                    }
                }
                return Ok("prescribed result coordinate");
            }
            Ok("")
        },
    );
}

/// generic ring sweep: unary ops + frobenius on all elements, binary ops on a sub-alphabet
fn ring_checks<S, R>(
    ctx: &Ctx,
    name: &'static str,
    els: &[(S, R)],
    pair_idx: &[usize],
    to_ref: fn(&S) -> R,
    frob: fn(&R, usize) -> R,
    ks: &[usize],
    show: fn(&R) -> Value,
) where
    S: Field + Sync,
    R: RF + Debug,
{
    let n = els.len() as u64;
    let inj = ctx.injecting("C09");
    // ---- unary
    let uops = ["square", "double", "negate", "inverse", "is_zero"];
    let nops = (uops.len() + ks.len()) as u64;
    let rad = [nops, n];
    let sub = format!("{}.unary", name);
    ctx.sweep(
        &sub,
        crate::infra::space(&rad),
        |i| {
            let d = unrank(i, &rad);
            let op = if d[0] < uops.len() { uops[d[0]].to_string() } else { format!("frobenius_map({})", ks[d[0] - uops.len()]) };
            json!({"op": op, "a": show(&els[d[1]].1)})
        },
        |i| {
            let d = unrank(i, &rad);
            let (s, r) = &els[d[1]];
            let nz = !r.is_zero();
            let mut x = *s;
            let (got, want, class): (R, R, &'static str) = if d[0] >= uops.len() {
                let k = ks[d[0] - uops.len()];
                x.frobenius_map(k);
                let mut g = to_ref(&x);
                if inj && k == 7 && nz {
                    g = g.add(&R::one());
                }
                (g, frob(r, k), if nz { "frobenius" } else { "" })
            } else {
                match d[0] {
                    0 => {
                        x.square();
                        (to_ref(&x), r.mul(r), "square")
                    }
                    1 => {
                        x.double();
                        (to_ref(&x), r.add(r), "double")
                    }
                    2 => {
                        x.negate();
                        (to_ref(&x), r.neg(), "negate")
                    }
                    3 => match (s.inverse(), r.inv()) {
                        (None, None) => return Ok(""),
                        (Some(a), Some(b)) => (to_ref(&a), b, "inverse"),
                        (None, Some(_)) => return Err(Fail::new(format!("{} inverse failed on a non-zero element", name))),
                        (Some(_), None) => return Err(Fail::new(format!("{} inverse of zero returned a value", name))),
                    },
                    _ => {
                        if s.is_zero() != r.is_zero() {
                            return Err(Fail::new(format!("{} is_zero wrong", name)));
                        }
                        return Ok(if nz { "is_zero" } else { "" });
                    }
                }
            };
            if got != want {
                return Err(Fail::with(format!("{} unary op differs from the quotient ring", name), json!({"got": show(&got), "want": show(&want)})));
            }
            Ok(if nz { class } else { "" })
        },
    );
    // ---- binary
    let m = pair_idx.len() as u64;
    let bops = ["add", "sub", "mul"];
    let rad = [3u64, m, m];
    let sub = format!("{}.binary", name);
    ctx.sweep(
        &sub,
        crate::infra::space(&rad),
        |i| {
            let d = unrank(i, &rad);
            json!({"op": bops[d[0]], "a": show(&els[pair_idx[d[1]]].1), "b": show(&els[pair_idx[d[2]]].1)})
        },
        |i| {
            let d = unrank(i, &rad);
            let (sa, ra) = &els[pair_idx[d[1]]];
            let (sb, rb) = &els[pair_idx[d[2]]];
            let mut x = *sa;
            let want = match d[0] {
                0 => {
                    x.add_assign(sb);
                    ra.add(rb)
                }
                1 => {
                    x.sub_assign(sb);
                    ra.sub(rb)
                }
                _ => {
                    x.mul_assign(sb);
                    ra.mul(rb)
                }
            };
            let got = to_ref(&x);
            if got != want {
                return Err(Fail::with(format!("{} {} differs from the quotient ring", name, bops[d[0]]), json!({"got": show(&got), "want": show(&want)})));
            }
            Ok(if ra.is_zero() || rb.is_zero() { "" } else { bops[d[0]] })
        },
    );
    // one() / zero()
    ctx.sweep(
        &format!("{}.consts", name),
        1,
        |_| json!({"op": "zero/one"}),
        |_| {
            if to_ref(&S::one()) != R::one() || to_ref(&S::zero()) != R::zero() {
                return Err(Fail::new(format!("{} zero()/one() wrong", name)));
            }
            Ok("consts")
        },
    );
}

const SP6: [&str; 3] = ["mul_by_nonresidue", "mul_by_1", "mul_by_01"];
fn show2(x: &Q2) -> Value {
    json!(hex_q2(x))
}
fn show6(x: &Q6) -> Value {
    json!(x.0.iter().map(hex_q2).collect::<Vec<_>>())
}
fn show12(x: &Q12) -> Value {
    json!(q12_coeffs(x).iter().map(hex_q1).collect::<Vec<_>>())
}

/// elements of an n-coefficient extension: every sparsity mask x value assignments
fn masked(ncoef: usize, masks: &[u32], assigns: &[Vec<Q1>]) -> Vec<Vec<Q1>> {
    let mut out = vec![];
    for a in assigns {
        for &m in masks {
            let v: Vec<Q1> = (0..ncoef).map(|i| if (m >> i) & 1 == 1 { a[i].clone() } else { Q1::zero() }).collect();
            out.push(v);
        }
    }
    out
}

pub fn run(ctx: &Ctx) -> (&'static str, &'static str) {
    let q = q();
    let _ = frob_table();
    let fa = fq_small_alphabet(ctx, ctx.tier.pick(2, 12));
    ctx.require(fa.len() >= 10, "Fq alphabet too small");
    // ---------------- Fq2: all pairs of the Fq alphabet
    let mut e2: Vec<(Fq2, Q2)> = vec![];
    for a in &fa {
        for b in &fa {
            let r = Q2::new(vec![a.clone(), b.clone()]);
            e2.push((fq2_of(&r), r));
        }
    }
    let all2: Vec<usize> = (0..e2.len()).collect();
    let ks2: Vec<usize> = [0, 1, 2, 3, 4, 5, 1000001].iter().cloned().chain(wide_powers()).collect();
    ring_checks::<Fq2, Q2>(ctx, "Fq2", &e2, &all2, q2_of, frob2, &ks2, show2);
    // Fq2 over the LIMB-PATTERN alphabet (coefficients whose in-memory residue has saturated limbs / limbs equal to the limbs of
    // q, in up to three runs): unary operations on ALL pairs (a, b) as a + b u (so c0 - c1, c0 + c1 inside square and the
    // Karatsuba products meet every pair), binary operations on all pairs of the elements (a, a') with a' the next pattern
    // (so every pair of patterns meets in coordinate 0 and in coordinate 1 of add / sub / mul)
    let limb_vals: Vec<Q1> = alpha::values_of_residues(q, 6, &alpha::limb_pattern_residues(q, 6, ctx.tier.pick(2, 3), false)).into_iter().map(Q1::new).collect();
    {
        let nl = limb_vals.len();
        let mut e2l: Vec<(Fq2, Q2)> = Vec::with_capacity(nl * nl);
        for a in &limb_vals {
            for b in &limb_vals {
                let r = Q2::new(vec![a.clone(), b.clone()]);
                e2l.push((fq2_of(&r), r));
            }
        }
        let diag: Vec<usize> = (0..nl).map(|i| i * nl + (i + 1) % nl).collect();
        ctx.extra("Fq2.limb_patterns: Fq alphabet size / Fq2 elements / elements in the binary sweep", json!([nl, e2l.len(), diag.len()]));
        ring_checks::<Fq2, Q2>(ctx, "Fq2.limb_patterns", &e2l, &diag, q2_of, frob2, &[1], show2);
    }
    // Fq2 specifics: norm, mul_by_nonresidue
    ctx.sweep(
        "Fq2.specific",
        2 * e2.len() as u64,
        |i| json!({"op": if i % 2 == 0 {"norm"} else {"mul_by_nonresidue"}, "a": show2(&e2[(i / 2) as usize].1)}),
        |i| {
            let (s, r) = &e2[(i / 2) as usize];
            if i % 2 == 0 {
                if q1_of(&s.norm()) != r.norm() {
                    return Err(Fail::new("Fq2 norm wrong"));
                }
            } else {
                let mut x = *s;
                x.mul_by_nonresidue();
                if q2_of(&x) != r.mul(&q2u(1, 1)) {
                    return Err(Fail::new("Fq2 mul_by_nonresidue is not multiplication by 1+u"));
                }
            }
            Ok(if r.is_zero() { "" } else { "fq2-specific" })
        },
    );

    // ---------------- Fq6
    let mut rng = ctx.rng("c09.ext");
    let small: Vec<Q1> = (0..12).map(|i| [Q1::one(), Q1::one().neg(), Q1::from_u64(2), Q1::from_u64(2).neg(), Q1::new((q - 1u32) >> 1), Q1::from_u64(3)][i % 6].clone()).collect();
    let seeded: Vec<Q1> = (0..12).map(|_| Q1::new(alpha::rand_below(&mut rng, q))).collect();
    let seeded_b: Vec<Q1> = (0..12).map(|_| Q1::new(alpha::rand_below(&mut rng, q))).collect();
    let masks6: Vec<u32> = (0..64).collect();
    let mut c6 = masked(6, &masks6, &[small[..6].to_vec(), seeded[..6].to_vec()]);
    for _ in 0..ctx.tier.pick(8, 32) {
        c6.push((0..6).map(|_| Q1::new(alpha::rand_below(&mut rng, q))).collect());
    }
    // coefficients cycling through the limb-pattern alphabet
    for k in 0..ctx.tier.pick(24usize, 120) {
        c6.push((0..6).map(|j| limb_vals[(k * 7 + j * (k % 5 + 1)) % limb_vals.len()].clone()).collect());
    }
    let mut seen = HashSet::new();
    c6.retain(|v| seen.insert(v.clone()));
    let e6: Vec<(Fq6, Q6)> = c6.iter().map(|v| { let r = q6_from_coeffs(v); (fq6_of(&r), r) }).collect();
    let pairs6: Vec<usize> = (0..e6.len()).step_by(ctx.tier.pick(3, 1)).collect();
    let ks6: Vec<usize> = ctx.tier.pick((0..8).chain(wide_powers()).collect::<Vec<_>>(), (0..14).chain(1000000..1000006).chain(wide_powers()).collect());
    ring_checks::<Fq6, Q6>(ctx, "Fq6", &e6, &pairs6, q6_of, frob6, &ks6, show6);

    // Fq6 specifics: mul_by_nonresidue, mul_by_1, mul_by_01 (sparse operands over a 6-value Fq2 alphabet incl. zero)
    let sp2: Vec<Q2> = vec![Q2::zero(), Q2::one(), q2u(0, 1), q2u(1, 1).neg(), Q2::new(vec![seeded[0].clone(), seeded[1].clone()]), Q2::new(vec![Q1::zero(), seeded[2].clone()])];
    let targets6: Vec<usize> = (0..e6.len()).step_by(ctx.tier.pick(4, 2)).collect();
    {
        let rad = [targets6.len() as u64, 6, 6, 3];
        ctx.sweep(
            "Fq6.sparse",
            crate::infra::space(&rad),
            |i| {
                let d = unrank(i, &rad);
                json!({"op": SP6[d[3]], "target": show6(&e6[targets6[d[0]]].1), "c0": hex_q2(&sp2[d[1]]), "c1": hex_q2(&sp2[d[2]])})
            },
            |i| {
                let d = unrank(i, &rad);
                let (s, r) = &e6[targets6[d[0]]];
                let (c0, c1) = (&sp2[d[1]], &sp2[d[2]]);
                let mut x = *s;
                let want = match d[3] {
                    0 => {
                        if d[1] != 0 || d[2] != 0 {
                            return Ok("");
                        }
                        x.mul_by_nonresidue();
                        r.mul(&Q6::gen())
                    }
                    1 => {
                        if d[1] != 0 {
                            return Ok("");
                        }
                        x.mul_by_1(&fq2_of(c1));
                        r.mul(&Q6::new(vec![Q2::zero(), c1.clone(), Q2::zero()]))
                    }
                    _ => {
                        x.mul_by_01(&fq2_of(c0), &fq2_of(c1));
                        r.mul(&Q6::new(vec![c0.clone(), c1.clone(), Q2::zero()]))
                    }
                };
                if q6_of(&x) != want {
                    return Err(Fail::new(format!("Fq6 {} differs from the dense product", SP6[d[3]])));
                }
                Ok(if r.is_zero() { "" } else { SP6[d[3]] })
            },
        );
    }

    // ---------------- Fq12
    let masks12: Vec<u32> = (0..4096).collect();
    let assigns: Vec<Vec<Q1>> = if ctx.quick() { vec![small.clone(), seeded.clone()] } else { vec![small.clone(), seeded.clone(), seeded_b.clone()] };
    let mut c12 = masked(12, &masks12, &assigns);
    // generators and products of generators, subfield embeddings
    let gens: Vec<Q12> = {
        let u = embed_q2_in_q12(&Q2::gen());
        let v = embed_q6_in_q12(&Q6::gen());
        let w = Q12::gen();
        vec![u.clone(), v.clone(), w.clone(), v.mul(&w), v.mul(&v), v.mul(&v).mul(&w), u.mul(&w), u.mul(&v).mul(&w), w.add(&Q12::one())]
    };
    for g in &gens {
        c12.push(q12_coeffs(g));
    }
    for _ in 0..ctx.tier.pick(16, 512) {
        c12.push((0..12).map(|_| Q1::new(alpha::rand_below(&mut rng, q))).collect());
    }
    for k in 0..ctx.tier.pick(24usize, 200) {
        c12.push((0..12).map(|j| limb_vals[(k * 11 + j * (k % 7 + 1)) % limb_vals.len()].clone()).collect());
    }
    let mut seen = HashSet::new();
    c12.retain(|v| seen.insert(v.clone()));
    let e12: Vec<(Fq12, Q12)> = c12.iter().map(|v| { let r = q12_from_coeffs(v); (fq12_of(&r), r) }).collect();
    ctx.require(e12.len() >= 500, "Fq12 alphabet too small");
    let npairs = ctx.tier.pick(64usize, 900);
    let step = (e12.len() / npairs).max(1);
    let mut pairs12: Vec<usize> = (0..e12.len()).step_by(step).take(npairs).collect();
    // make sure the generators are among the binary operands
    for k in 0..gens.len().min(6) {
        let idx = e12.len() - ctx.tier.pick(16, 512) - gens.len() + k;
        if !pairs12.contains(&idx) {
            pairs12.push(idx);
        }
    }
    let ks12: Vec<usize> = ctx.tier.pick((0..14).chain(1000005..1000007).chain(wide_powers()).collect::<Vec<_>>(), (0..26).chain(1000000..1000012).chain(wide_powers()).collect());
    ring_checks::<Fq12, Q12>(ctx, "Fq12", &e12, &pairs12, q12_of, frob12, &ks12, show12);
    {
        fn q2_from(v: &[Q1]) -> Q2 {
            Q2::new(v.to_vec())
        }
        fn q2_co(x: &Q2) -> Vec<Q1> {
            vec![x.c(0).clone(), x.c(1).clone()]
        }
        prescribed_outputs::<Fq2, Q2>(ctx, "Fq2", 2, q2_from, q2_co, fq2_of, q2_of, &seeded[..2], &seeded_b[..2]);
        prescribed_outputs::<Fq6, Q6>(ctx, "Fq6", 6, q6_from_coeffs, q6_coeffs, fq6_of, q6_of, &seeded[..6], &seeded_b[..6]);
        prescribed_outputs::<Fq12, Q12>(ctx, "Fq12", 12, q12_from_coeffs, q12_coeffs, fq12_of, q12_of, &seeded[..12], &seeded_b[..12]);
    }

    // conjugate
    ctx.sweep(
        "Fq12.conjugate",
        e12.len() as u64,
        |i| json!({"op": "conjugate", "a": show12(&e12[i as usize].1)}),
        |i| {
            let (s, r) = &e12[i as usize];
            let mut x = *s;
            x.conjugate();
            let want = Q12::new(vec![r.c(0).clone(), r.c(1).neg()]);
            if q12_of(&x) != want {
                return Err(Fail::new("Fq12 conjugate is not c0 - c1*w"));
            }
            // conjugation is the q^6-power Frobenius
            if want != frob12(r, 6) {
                return Err(Fail::new("reference: conjugation != x^(q^6) (model inconsistency)"));
            }
            Ok(if r.c(1).is_zero() { "" } else { "conjugate" })
        },
    );
    // mul_by_014 against the dense product with c0 + c1*v + c4*v*w
    let targets12: Vec<usize> = (0..e12.len()).step_by((e12.len() / ctx.tier.pick(24, 64)).max(1)).collect();
    {
        let rad = [targets12.len() as u64, 6, 6, 6];
        ctx.sweep(
            "Fq12.mul_by_014",
            crate::infra::space(&rad),
            |i| {
                let d = unrank(i, &rad);
                json!({"op": "mul_by_014", "target": show12(&e12[targets12[d[0]]].1), "c0": hex_q2(&sp2[d[1]]), "c1": hex_q2(&sp2[d[2]]), "c4": hex_q2(&sp2[d[3]])})
            },
            |i| {
                let d = unrank(i, &rad);
                let (s, r) = &e12[targets12[d[0]]];
                let (c0, c1, c4) = (&sp2[d[1]], &sp2[d[2]], &sp2[d[3]]);
                let mut x = *s;
                x.mul_by_014(&fq2_of(c0), &fq2_of(c1), &fq2_of(c4));
                let sparse = Q12::new(vec![Q6::new(vec![c0.clone(), c1.clone(), Q2::zero()]), Q6::new(vec![Q2::zero(), c4.clone(), Q2::zero()])]);
                if q12_of(&x) != r.mul(&sparse) {
                    return Err(Fail::new("Fq12 mul_by_014 differs from the dense product with c0 + c1 v + c4 v w"));
                }
                Ok(if r.is_zero() || (d[1] == 0 && d[2] == 0 && d[3] == 0) { "" } else { "mul_by_014" })
            },
        );
    }
    {
        use ff::SqrtField;
        let es = crate::shadow::exponent_shapes();
        let s2: Vec<Fq2> = e2.iter().step_by(5).map(|x| x.0).collect();
        let s6: Vec<Fq6> = e6.iter().step_by(7).map(|x| x.0).collect();
        let s12: Vec<Fq12> = e12.iter().step_by((e12.len() / 24).max(1)).map(|x| x.0).collect();
        shadow_field!(ctx, "Fq2", Fq2, &s2, &es);
        shadow_sqrt!(ctx, "Fq2", Fq2, &s2);
        shadow_field!(ctx, "Fq6", Fq6, &s6, &es);
        shadow_field!(ctx, "Fq12", Fq12, &s12, &es);
    }
    ctx.assume("x^(q^12) = x in F_{q^12}; Frobenius is evaluated in the model from u^q, v^q, w^q (generic exponentiation) by Fq-linearity and multiplicativity");
    (
        "exploration",
        "Fq2: all 12x12 combinations of an Fq alphabet (0, +-1, +-2, 3, (q-1)/2, R mod q, seeded), all pairs x {add,sub,mul}, all unary ops, Frobenius powers; Fq6/Fq12: every sparsity mask of the 6/12 Fq coefficients (x 2-3 value assignments, the generators u,v,w and their products, seeded dense elements; unary ops and Frobenius k in 0..25 and 10^6+0..11 on every element, binary ops on a spread sub-alphabet, sparse products against the dense product; non-trivial = no zero operand",
    )
}
