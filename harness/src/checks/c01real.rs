//! C01 part 2: real G1/G2 against the big-integer chord-and-tangent model, and register-file BFS
//! (stateright) on a toy curve and on the real curves.
use crate::conv::*;
use crate::infra::{guard, unrank, Ctx, Fail};
use crate::mc::{explore, Sys};
use crate::points::*;
use crate::refmodel::*;
use crate::toy::*;
use crate::toymodel::Group;
use ff::Field;
use pairing_plus::{CurveAffine, CurveProjective};
use serde_json::json;
use std::marker::PhantomData;
use std::sync::Arc;

pub fn ref_pair_class<K: RF>(c: &Curve<K>, p: &Pt<K>, q: &Pt<K>) -> &'static str {
    match (p, q) {
        (Pt::Inf, _) | (_, Pt::Inf) => "identity operand",
        (Pt::Aff(x1, y1), Pt::Aff(x2, y2)) => {
            if x1 == x2 && y1 == y2 {
                if c.dbl(p) == c.neg(p) {
                    "P+P with 2P=-P"
                } else {
                    "P+P"
                }
            } else if x1 == x2 {
                "P+(-P)"
            } else if y1 == y2 {
                "same y, different x"
            } else {
                "generic"
            }
        }
    }
}

pub struct RealV<C: RealCurve> {
    pub v: Vec<(C::Proj, usize, String)>,
    pub w: Vec<(C::Aff, usize)>,
    pub pts: Vec<NamedPt<C::K>>,
}

pub fn build_v<C: RealCurve>(pts: Vec<NamedPt<C::K>>, lams: &[C::K]) -> RealV<C> {
    let mut v = vec![];
    // identity encodings
    let one = C::K::one();
    let zero = C::K::zero();
    v.push((C::raw(&zero, &one, &zero), 0usize, "O as (0,1,0)".to_string()));
    v.push((C::raw(&zero, &zero, &zero), 0usize, "O as (0,0,0)".to_string()));
    if let Pt::Aff(x, y) = C::gen() {
        v.push((C::raw(&x, &y, &zero), 0usize, "O as (gx,gy,0)".to_string()));
    }
    assert!(pts[0].p.is_inf());
    for (i, np) in pts.iter().enumerate().skip(1) {
        for (k, l) in lams.iter().enumerate() {
            v.push((C::rep(&np.p, l), i, format!("{} (lambda #{})", np.name, k)));
        }
    }
    let w = pts.iter().enumerate().map(|(i, np)| (C::aff_of(&np.p), i)).collect();
    RealV { v, w, pts }
}

fn real_group_law<C: RealCurve>(ctx: &Ctx, rv: &RealV<C>) {
    let name = C::NAME;
    let c = C::curve();
    let v = &rv.v;
    let w = &rv.w;
    let pts = &rv.pts;
    let nv = v.len() as u64;
    let nw = w.len() as u64;
    let chk = |x: &C::Proj, want: &Pt<C::K>, what: &str, cls: &str| -> Result<(), Fail> {
        if !C::raw_on_curve(x) {
            return Err(Fail::with(format!("{}: result of {} is not on the curve ({})", name, what, cls), json!(C::show_raw(x))));
        }
        let got = C::pt_of(x);
        if &got != want {
            return Err(Fail::with(format!("{}: {} differs from the group law ({})", name, what, cls), json!({"got": C::show(&got), "want": C::show(want)})));
        }
        Ok(())
    };
    // unary
    let uops = ["double", "negate", "into_affine", "is_normalized/is_zero", "roundtrip"];
    let rad = [uops.len() as u64, nv];
    ctx.sweep(
        &format!("{}.unary", name),
        crate::infra::space(&rad),
        |i| {
            let d = unrank(i, &rad);
            json!({"op": uops[d[0]], "p": v[d[1]].2})
        },
        |i| {
            let d = unrank(i, &rad);
            let (p, pi, _) = &v[d[1]];
            let rp = &pts[*pi].p;
            match d[0] {
                0 => {
                    let mut x = *p;
                    guard(|| x.double()).map_err(Fail::new)?;
                    chk(&x, &c.dbl(rp), "double", "")?;
                }
                1 => {
                    let mut x = *p;
                    x.negate();
                    chk(&x, &c.neg(rp), "negate", "")?;
                }
                2 => {
                    let a = guard(|| p.into_affine()).map_err(Fail::new)?;
                    if &C::pt_of_aff(&a) != rp {
                        return Err(Fail::new(format!("{}: into_affine changed the point", name)));
                    }
                    if rp.is_inf() && a != C::Aff::zero() {
                        return Err(Fail::new(format!("{}: affine identity not canonical", name)));
                    }
                }
                3 => {
                    let (_, _, z) = C::raw_of(p);
                    if p.is_zero() != z.is_zero() || p.is_zero() != rp.is_inf() {
                        return Err(Fail::new(format!("{}: is_zero wrong", name)));
                    }
                    if p.is_normalized() != (z.is_zero() || z == C::K::one()) {
                        return Err(Fail::new(format!("{}: is_normalized wrong", name)));
                    }
                }
                _ => {
                    let a = p.into_affine();
                    let b = a.into_projective();
                    chk(&b, rp, "into_projective(into_affine)", "")?;
                    if b.into_affine() != a {
                        return Err(Fail::new(format!("{}: conversions not idempotent", name)));
                    }
                }
            }
            Ok(if rp.is_inf() { "identity" } else if p.is_normalized() { "normalized" } else { "generic representative" })
        },
    );
    // binary
    let bops = ["add_assign", "sub_assign", "eq"];
    let rad = [3u64, nv, nv];
    ctx.sweep(
        &format!("{}.binary", name),
        crate::infra::space(&rad),
        |i| {
            let d = unrank(i, &rad);
            json!({"op": bops[d[0]], "p": v[d[1]].2, "q": v[d[2]].2})
        },
        |i| {
            let d = unrank(i, &rad);
            let (p, pi, _) = &v[d[1]];
            let (q, qi, _) = &v[d[2]];
            let (rp, rq) = (&pts[*pi].p, &pts[*qi].p);
            match d[0] {
                0 => {
                    let cls = ref_pair_class(&c, rp, rq);
                    let mut x = *p;
                    guard(|| x.add_assign(q)).map_err(Fail::new)?;
                    chk(&x, &c.add(rp, rq), "add_assign", cls)?;
                    Ok(cls)
                }
                1 => {
                    let nq = c.neg(rq);
                    let cls = ref_pair_class(&c, rp, &nq);
                    let mut x = *p;
                    guard(|| x.sub_assign(q)).map_err(Fail::new)?;
                    chk(&x, &c.add(rp, &nq), "sub_assign", cls)?;
                    Ok(cls)
                }
                _ => {
                    if (p == q) != (rp == rq) {
                        return Err(Fail::new(format!("{}: == disagrees with equality of the denoted points", name)));
                    }
                    Ok(if rp == rq && C::raw_of(p) != C::raw_of(q) { "equal under different coordinates" } else if rp == rq { "identical" } else { "different" })
                }
            }
        },
    );
    // mixed
    let mops = ["add_assign_mixed", "sub_assign_mixed"];
    let rad = [2u64, nv, nw];
    ctx.sweep(
        &format!("{}.mixed", name),
        crate::infra::space(&rad),
        |i| {
            let d = unrank(i, &rad);
            json!({"op": mops[d[0]], "p": v[d[1]].2, "q": pts[w[d[2]].1].name})
        },
        |i| {
            let d = unrank(i, &rad);
            let (p, pi, _) = &v[d[1]];
            let (q, qi) = &w[d[2]];
            let (rp, rq) = (&pts[*pi].p, &pts[*qi].p);
            let mut x = *p;
            let (want, cls) = if d[0] == 0 {
                guard(|| x.add_assign_mixed(q)).map_err(Fail::new)?;
                (c.add(rp, rq), ref_pair_class(&c, rp, rq))
            } else {
                guard(|| x.sub_assign_mixed(q)).map_err(Fail::new)?;
                let nq = c.neg(rq);
                (c.add(rp, &nq), ref_pair_class(&c, rp, &nq))
            };
            chk(&x, &want, mops[d[0]], cls)?;
            Ok(cls)
        },
    );
    // affine negate / conversions
    ctx.sweep(
        &format!("{}.affine", name),
        nw,
        |i| json!({"a": pts[w[i as usize].1].name}),
        |i| {
            let (a, ai) = &w[i as usize];
            let rp = &pts[*ai].p;
            let mut n = *a;
            n.negate();
            if C::pt_of_aff(&n) != c.neg(rp) {
                return Err(Fail::new(format!("{}: affine negate wrong", name)));
            }
            // equality of affine values: -P == -P obtained through the projective type; in particular -O == O
            let mut np = a.into_projective();
            np.negate();
            if n != np.into_affine() || (rp.is_inf() && n != *a) {
                return Err(Fail::new(format!("{}: the negation of an affine point does not compare equal (==) to the same point obtained by projective negation and conversion", name)));
            }
            let p = a.into_projective();
            if &C::pt_of(&p) != rp || p.into_affine() != *a {
                return Err(Fail::new(format!("{}: affine <-> projective conversion wrong", name)));
            }
            Ok(if rp.is_inf() { "identity" } else { "point" })
        },
    );
    // batch normalization: all pairs over a spread sub-alphabet, all triples over a small one
    let sub2: Vec<usize> = (0..v.len()).step_by(ctx.tier.pick(3, 1)).collect();
    let sub3: Vec<usize> = (0..v.len()).step_by((v.len() / ctx.tier.pick(8, 14)).max(1)).collect();
    for (len, subset) in [(2usize, &sub2), (3usize, &sub3)].iter() {
        let m = subset.len() as u64;
        let rad: Vec<u64> = vec![m; *len];
        ctx.sweep(
            &format!("{}.batch_normalization.len{}", name, len),
            crate::infra::space(&rad),
            |i| {
                let d = unrank(i, &rad);
                json!({"slice": d.iter().map(|&k| v[subset[k]].2.clone()).collect::<Vec<_>>()})
            },
            |i| {
                let d = unrank(i, &rad);
                let mut s: Vec<C::Proj> = d.iter().map(|&k| v[subset[k]].0).collect();
                guard(|| C::Proj::batch_normalization(&mut s)).map_err(Fail::new)?;
                let (mut any_norm, mut any_work) = (false, false);
                for (k, out) in d.iter().zip(s.iter()) {
                    let (orig, oi, _) = &v[subset[*k]];
                    if C::pt_of(out) != pts[*oi].p {
                        return Err(Fail::new(format!("{}: batch_normalization changed a point", name)));
                    }
                    if !out.is_normalized() {
                        return Err(Fail::new(format!("{}: entry not normalized after batch_normalization", name)));
                    }
                    if orig.is_normalized() {
                        any_norm = true;
                    } else {
                        any_work = true;
                    }
                }
                Ok(if any_norm && any_work { "mixed normalized / unnormalized" } else if any_work { "all unnormalized" } else { "nothing to do" })
            },
        );
    }
    // long slices: every grid length (powers of two and neighbours) x a few starting offsets, cycling through the whole alphabet
    let lens: Vec<usize> = super::c01::long_slice_lengths().into_iter().filter(|&l| l <= ctx.tier.pick(300, 1026)).collect();
    let rad: Vec<u64> = vec![lens.len() as u64, 3];
    ctx.sweep(
        &format!("{}.batch_normalization.long", name),
        crate::infra::space(&rad),
        |i| {
            let d = unrank(i, &rad);
            json!({"length": lens[d[0]], "offset": d[1] * 7})
        },
        |i| {
            let d = unrank(i, &rad);
            let len = lens[d[0]];
            let idx: Vec<usize> = (0..len).map(|j| (d[1] * 7 + j * [1, 3, 5][d[1]]) % v.len()).collect();
            let mut s: Vec<C::Proj> = idx.iter().map(|&k| v[k].0).collect();
            guard(|| C::Proj::batch_normalization(&mut s)).map_err(Fail::new)?;
            for (j, (k, out)) in idx.iter().zip(s.iter()).enumerate() {
                if C::pt_of(out) != pts[v[*k].1].p {
                    return Err(Fail::new(format!("{}: batch_normalization changed the point at index {} (slice length {})", name, j, len)));
                }
                if !out.is_normalized() {
                    return Err(Fail::new(format!("{}: entry {} not normalized after batch_normalization (slice length {})", name, j, len)));
                }
            }
            Ok(if len > 128 { "length > 128" } else { "length <= 128" })
        },
    );
}

// ------------------------------------------------------------------------------------------------
// register-file transition systems
// ------------------------------------------------------------------------------------------------
#[derive(Clone, Debug, PartialEq, Eq, Hash)]
pub enum Act {
    Add(u8, u8),
    Sub(u8, u8),
    Dbl(u8),
    Neg(u8),
    MixedAdd(u8, u8),
    MixedSub(u8, u8),
    NormalizeAll,
    Reload(u8),
}
fn all_actions(nregs: u8, out: &mut Vec<Act>) {
    for i in 0..nregs {
        for j in 0..nregs {
            if i != j {
                out.push(Act::Add(i, j));
                out.push(Act::Sub(i, j));
                out.push(Act::MixedAdd(i, j));
                out.push(Act::MixedSub(i, j));
            }
        }
        out.push(Act::Dbl(i));
        out.push(Act::Neg(i));
        out.push(Act::Reload(i));
    }
    // P + P through add_assign on the same register contents
    out.push(Act::Add(0, 0));
    out.push(Act::NormalizeAll);
}
/// apply an action to a register file of subject values
fn apply<P: CurveProjective>(regs: &mut Vec<P>, a: &Act) {
    match *a {
        Act::Add(i, j) => {
            let o = regs[j as usize];
            regs[i as usize].add_assign(&o);
        }
        Act::Sub(i, j) => {
            let o = regs[j as usize];
            regs[i as usize].sub_assign(&o);
        }
        Act::Dbl(i) => regs[i as usize].double(),
        Act::Neg(i) => regs[i as usize].negate(),
        Act::MixedAdd(i, j) => {
            let o = regs[j as usize].into_affine();
            regs[i as usize].add_assign_mixed(&o);
        }
        Act::MixedSub(i, j) => {
            let o = regs[j as usize].into_affine();
            regs[i as usize].sub_assign_mixed(&o);
        }
        Act::NormalizeAll => P::batch_normalization(&mut regs[..]),
        Act::Reload(i) => regs[i as usize] = regs[i as usize].into_affine().into_projective(),
    }
}

// ---- toy register file: state = raw coordinates, model = Cayley table
struct ToyRegs<C: ToyCurve> {
    g: Arc<Group<C>>,
    inits: Vec<Vec<(u32, u32, u32)>>,
}
fn toy_from_raw<C: ToyCurve>(elems: &[C::F], r: &(u32, u32, u32)) -> C::P {
    C::proj(elems[r.0 as usize], elems[r.1 as usize], elems[r.2 as usize])
}
fn toy_to_raw<C: ToyCurve>(p: &C::P) -> (u32, u32, u32) {
    let (x, y, z) = p.as_tuple();
    (x.code(), y.code(), z.code())
}
impl<C: ToyCurve> Sys for ToyRegs<C>
where
    C::P: Send + Sync,
    C::F: Send + Sync,
{
    type S = Vec<(u32, u32, u32)>;
    type A = Act;
    fn inits(&self) -> Vec<Self::S> {
        self.inits.clone()
    }
    fn actions(&self, s: &Self::S, out: &mut Vec<Act>) {
        all_actions(s.len() as u8, out);
    }
    fn step(&self, s: &Self::S, a: &Act) -> Result<Self::S, String> {
        let elems = C::F::all_elems();
        let mut regs: Vec<C::P> = s.iter().map(|r| toy_from_raw::<C>(&elems, r)).collect();
        let before: Vec<usize> = regs.iter().map(|p| self.g.abs(p).expect("state invariant")).collect();
        apply(&mut regs, a);
        let mut want = before.clone();
        let g = &self.g;
        match *a {
            Act::Add(i, j) | Act::MixedAdd(i, j) => want[i as usize] = g.plus(before[i as usize], before[j as usize]),
            Act::Sub(i, j) | Act::MixedSub(i, j) => want[i as usize] = g.minus(before[i as usize], before[j as usize]),
            Act::Dbl(i) => want[i as usize] = g.plus(before[i as usize], before[i as usize]),
            Act::Neg(i) => want[i as usize] = g.neg[before[i as usize]] as usize,
            Act::NormalizeAll | Act::Reload(_) => {}
        }
        for (k, p) in regs.iter().enumerate() {
            match g.abs(p) {
                Some(x) if x == want[k] => {}
                other => return Err(format!("{}: after {:?} register {} denotes {:?}, the group law says {}", C::NAME, a, k, other, want[k])),
            }
        }
        if matches!(a, Act::NormalizeAll) && regs.iter().any(|p| !p.is_normalized()) {
            return Err(format!("{}: register not normalized after batch_normalization", C::NAME));
        }
        Ok(regs.iter().map(toy_to_raw::<C>).collect())
    }
}

fn toy_bfs<C: ToyCurve>(ctx: &Ctx, depth: Option<usize>, nregs: usize)
where
    C::P: Send + Sync,
    C::F: Send + Sync,
{
    let sub = format!("{}.regfile_bfs.{}regs", C::NAME, nregs);
    if !ctx.selected(&sub) {
        return;
    }
    ctx.trace(&format!("bfs {}", sub));
    let g = Arc::new(Group::<C>::build());
    // initial files: generator under two representatives and its inverse; an order-3 point (if any) twice and O
    let elems = all_nonzero_codes::<C>();
    let gen = (1..g.n()).max_by_key(|&i| g.order[i]).unwrap();
    let t3 = (1..g.n()).find(|&i| g.order[i] == 3);
    let l1 = C::F::one();
    let l2 = elems[elems.len() / 2];
    let mut inits = vec![vec![toy_to_raw::<C>(&g.rep(gen, &l2)), toy_to_raw::<C>(&g.rep(gen, &l1)), toy_to_raw::<C>(&g.rep(g.neg[gen] as usize, &l2))]];
    if let Some(t) = t3 {
        inits.push(vec![toy_to_raw::<C>(&g.rep(t, &l2)), toy_to_raw::<C>(&g.rep(t, &l1)), toy_to_raw::<C>(&C::P::zero())]);
    }
    for f in inits.iter_mut() {
        f.truncate(nregs);
    }
    if nregs == 2 {
        inits.push(vec![toy_to_raw::<C>(&g.rep(gen, &l2)), toy_to_raw::<C>(&g.rep(g.neg[gen] as usize, &l1))]);
        if depth.is_none() {
            // start from every pair of points as well (non-initial states: the whole 2-register space becomes reachable)
            for i in 0..g.n() {
                for j in 0..g.n() {
                    inits.push(vec![toy_to_raw::<C>(&g.rep(i, &l2)), toy_to_raw::<C>(&g.rep(j, &l1))]);
                }
            }
        }
    }
    let sys = ToyRegs::<C> { g: g.clone(), inits: inits.clone() };
    let res = explore(sys, depth, ctx.threads, false);
    ctx.add_mc(
        res.unique_states,
        res.transitions,
        0,
        vec![json!({"system": sub, "initial_register_files": format!("{:?}", inits), "unique_states": res.unique_states, "transitions": res.transitions, "max_depth": res.max_depth, "depth_bound": format!("{:?}", depth)})],
    );
    ctx.count(&sub, res.transitions, res.transitions, depth.is_none(), None);
    if let Some((path, msg)) = res.violation {
        ctx.violation(&sub, 0, Fail::with(msg, json!({"actions": format!("{:?}", path), "initial_register_files": format!("{:?}", inits)})));
    }
}
fn all_nonzero_codes<C: ToyCurve>() -> Vec<C::F> {
    C::F::all_elems().into_iter().filter(|x| !x.is_zero()).collect()
}

// ---- real register file: state = canonical limbs of the raw coordinates; model = big-integer law
struct RReg<C: RealCurve> {
    p: C::Proj,
    key: Vec<u64>,
    /// reference abstraction of p (a function of the raw value; cached, not part of the state identity)
    model: Pt<C::K>,
}
impl<C: RealCurve> std::fmt::Debug for RReg<C> {
    fn fmt(&self, f: &mut std::fmt::Formatter) -> std::fmt::Result {
        write!(f, "{}", C::show_raw(&self.p))
    }
}
impl<C: RealCurve> Clone for RReg<C> {
    fn clone(&self) -> Self {
        RReg { p: self.p, key: self.key.clone(), model: self.model.clone() }
    }
}
impl<C: RealCurve> PartialEq for RReg<C> {
    fn eq(&self, o: &Self) -> bool {
        self.key == o.key
    }
}
impl<C: RealCurve> Eq for RReg<C> {}
impl<C: RealCurve> std::hash::Hash for RReg<C> {
    fn hash<H: std::hash::Hasher>(&self, h: &mut H) {
        self.key.hash(h)
    }
}
fn rreg<C: RealCurve>(p: C::Proj) -> RReg<C> {
    let (x, y, z) = C::raw_of(&p);
    let key = format!("{:?}|{:?}|{:?}", x, y, z).bytes().map(|b| b as u64).collect();
    let model = pt_of_jac(&x, &y, &z);
    RReg { p, key, model }
}
struct RealRegs<C: RealCurve> {
    inits: Vec<Vec<RReg<C>>>,
    _c: PhantomData<C>,
}
impl<C: RealCurve> Sys for RealRegs<C> {
    type S = Vec<RReg<C>>;
    type A = Act;
    fn inits(&self) -> Vec<Self::S> {
        self.inits.clone()
    }
    fn actions(&self, s: &Self::S, out: &mut Vec<Act>) {
        all_actions(s.len() as u8, out);
    }
    fn step(&self, s: &Self::S, a: &Act) -> Result<Self::S, String> {
        let c = C::curve();
        let mut regs: Vec<C::Proj> = s.iter().map(|r| r.p).collect();
        let before: Vec<Pt<C::K>> = s.iter().map(|r| r.model.clone()).collect();
        apply(&mut regs, a);
        let mut want = before.clone();
        match *a {
            Act::Add(i, j) | Act::MixedAdd(i, j) => want[i as usize] = c.add(&before[i as usize], &before[j as usize]),
            Act::Sub(i, j) | Act::MixedSub(i, j) => want[i as usize] = c.sub(&before[i as usize], &before[j as usize]),
            Act::Dbl(i) => want[i as usize] = c.dbl(&before[i as usize]),
            Act::Neg(i) => want[i as usize] = c.neg(&before[i as usize]),
            Act::NormalizeAll | Act::Reload(_) => {}
        }
        let mut out = Vec::with_capacity(regs.len());
        for (k, p) in regs.iter().enumerate() {
            if p.as_tuple() == s[k].p.as_tuple() {
                // raw value untouched: same abstraction as before
                if want[k] != before[k] {
                    return Err(format!("{}: after {:?} register {} is unchanged but the group law says it changes", C::NAME, a, k));
                }
                out.push(s[k].clone());
                continue;
            }
            if !C::raw_on_curve(p) {
                return Err(format!("{}: after {:?} register {} is off the curve", C::NAME, a, k));
            }
            let nr = rreg::<C>(*p);
            if nr.model != want[k] {
                return Err(format!("{}: after {:?} register {} = {} but the group law says {}", C::NAME, a, k, C::show(&nr.model), C::show(&want[k])));
            }
            out.push(nr);
        }
        Ok(out)
    }
}
fn real_bfs<C: RealCurve>(ctx: &Ctx, rv: &RealV<C>, depth: usize) {
    let sub = format!("{}.regfile_bfs", C::NAME);
    if !ctx.selected(&sub) {
        return;
    }
    ctx.trace(&format!("bfs {}", sub));
    let find = |needle: &str| rv.v.iter().filter(|e| e.2.starts_with(needle)).map(|e| e.0).collect::<Vec<_>>();
    let gname = if C::NAME == "G1" { "g1 (" } else { "g2 (" };
    let ng = if C::NAME == "G1" { "-g1 (" } else { "-g2 (" };
    let gs = find(gname);
    let ngs = find(ng);
    let mut inits = vec![vec![rreg::<C>(gs[1]), rreg::<C>(gs[0]), rreg::<C>(ngs[1])]];
    let t3 = find("T3=(0,2)");
    if t3.len() >= 2 {
        inits.push(vec![rreg::<C>(t3[1]), rreg::<C>(t3[0]), rreg::<C>(C::Proj::zero())]);
    } else {
        let same_y = find("beta*g2");
        if !same_y.is_empty() {
            inits.push(vec![rreg::<C>(gs[1]), rreg::<C>(same_y[0]), rreg::<C>(C::Proj::zero())]);
        }
    }
    if !ctx.quick() {
        // non-initial starting points: small-order and l*r-order points, same-y pairs, garbage identity encodings
        let small = rv.v.iter().filter(|e| e.2.starts_with("P1") && e.2.contains(" order 1")).map(|e| e.0).collect::<Vec<_>>();
        let same_y = rv.v.iter().filter(|e| e.2.starts_with("beta*g")).map(|e| e.0).collect::<Vec<_>>();
        let ids = rv.v.iter().filter(|e| e.2.starts_with("O as")).map(|e| e.0).collect::<Vec<_>>();
        if small.len() >= 2 {
            inits.push(vec![rreg::<C>(small[0]), rreg::<C>(small[1]), rreg::<C>(gs[0])]);
        }
        if !same_y.is_empty() && ids.len() >= 3 {
            inits.push(vec![rreg::<C>(same_y[same_y.len() - 1]), rreg::<C>(gs[gs.len() - 1]), rreg::<C>(ids[2])]);
            inits.push(vec![rreg::<C>(ids[1]), rreg::<C>(ids[2]), rreg::<C>(ngs[0])]);
        }
    }
    let desc: Vec<String> = inits.iter().map(|f| f.iter().map(|r| C::show(&C::pt_of(&r.p))).collect::<Vec<_>>().join(" ; ")).collect();
    let sys = RealRegs::<C> { inits, _c: PhantomData };
    let res = explore(sys, Some(depth), ctx.threads, false);
    ctx.add_mc(
        res.unique_states,
        res.transitions,
        res.transitions,
        vec![json!({"system": sub, "initial_register_files": desc, "unique_states": res.unique_states, "transitions": res.transitions, "max_depth": res.max_depth, "depth_bound": depth})],
    );
    ctx.count(&sub, res.transitions, res.transitions, false, None);
    if let Some((path, msg)) = res.violation {
        ctx.violation(&sub, 0, Fail::with(msg, json!({"actions": format!("{:?}", path)})));
    }
}

pub fn run(ctx: &Ctx) {
    let mut rng = ctx.rng("c01.points");
    let p1 = g1_points(&mut rng, ctx.tier.pick(2, 5), ctx.tier.pick(1, 4));
    let l1 = lambdas_q1(&mut rng, ctx.tier.pick(1, 2));
    let rv1 = build_v::<RG1>(p1, &l1);
    ctx.require(rv1.pts.iter().any(|p| !p.in_subgroup) && rv1.pts.iter().filter(|p| p.in_subgroup).count() >= 5, "G1 alphabet lacks classes");
    real_group_law::<RG1>(ctx, &rv1);
    let p2 = g2_points(&mut rng, ctx.tier.pick(2, 4), ctx.tier.pick(1, 3));
    let l2 = lambdas_q2(&mut rng, ctx.tier.pick(0, 1));
    let rv2 = build_v::<RG2>(p2, &l2);
    real_group_law::<RG2>(ctx, &rv2);
    ctx.extra("real alphabets", json!({"G1 points": rv1.pts.iter().map(|p| p.name.clone()).collect::<Vec<_>>(), "G2 points": rv2.pts.iter().map(|p| p.name.clone()).collect::<Vec<_>>(), "G1 projective values": rv1.v.len(), "G2 projective values": rv2.v.len()}));
    // concrete-type call forms on the real groups
    {
        use pairing_plus::bls12_381::{G1Affine, G2Affine, G1, G2};
        let ks: Vec<pairing_plus::bls12_381::FrRepr> = vec![frrepr(&num_bigint::BigUint::from(0u32)), frrepr(&num_bigint::BigUint::from(1u32)), frrepr(&(r() - 1u32)), frrepr(&(crate::alpha::pow2(256) - 1u32)), frrepr(&crate::alpha::pow2(64))];
        let s1: Vec<G1> = rv1.v.iter().step_by((rv1.v.len() / 10).max(1)).map(|e| e.0).collect();
        let s2: Vec<G2> = rv2.v.iter().step_by((rv2.v.len() / 8).max(1)).map(|e| e.0).collect();
        shadow_curve!(ctx, "G1", G1, G1Affine, &s1, &ks);
        shadow_curve!(ctx, "G2", G2, G2Affine, &s2, &ks);
    }
    // register files
    // complete reachable state spaces: 3 registers over F_7, 2 registers over F_19; 3 registers over F_19 depth-bounded
    #[cfg(feature = "toy")]
    {
        toy_bfs::<T7_2>(ctx, None, 3);
        if ctx.quick() {
            toy_bfs::<T19_4>(ctx, Some(4), 3);
        } else {
            toy_bfs::<T19_4>(ctx, None, 2);
            toy_bfs::<T19_4>(ctx, Some(6), 3);
        }
    }
    #[cfg(not(feature = "toy"))]
    ctx.degraded("toy register-file BFS");
    real_bfs::<RG1>(ctx, &rv1, ctx.tier.pick(3, 4));
    real_bfs::<RG2>(ctx, &rv2, ctx.tier.pick(2, 3));
}
