//! C18 — square roots, quadratic character, sgn0 and orderings.
use crate::alpha;
use crate::conv::*;
use crate::infra::{guard, unrank, Ctx, Fail};
use crate::refmodel::*;
use ff::{Field, LegendreSymbol, PrimeField, SqrtField};
use num_bigint::BigUint;
use num_traits::Zero;
use pairing_plus::bls12_381::{Fq, Fq2, Fr};
use pairing_plus::signum::{Sgn0Result, Signum0};
use serde_json::json;
use std::collections::HashSet;

fn leg(l: LegendreSymbol) -> i32 {
    match l {
        LegendreSymbol::Zero => 0,
        LegendreSymbol::QuadraticResidue => 1,
        LegendreSymbol::QuadraticNonResidue => -1,
    }
}

fn prime_field<F, M>(ctx: &Ctx, name: &'static str, p: &BigUint, limbs: usize, mk: fn(&BigUint) -> F, int: fn(&F) -> BigUint, sgn: Option<fn(&F) -> Sgn0Result>)
where
    F: PrimeField + SqrtField + Ord,
    M: Modulus,
{
    let mut rng = ctx.rng(name);
    let mut ints = alpha::field_values(p, limbs, &mut rng, 16);
    // explicit squares and non-squares (class decided by the reference Euler criterion)
    let (mut nsq, mut nns) = (0, 0);
    let want = ctx.tier.pick(64, 1024);
    while nsq < want || nns < want {
        let x = alpha::rand_below(&mut rng, p);
        let e = Zp::<M>::new_ref(&x).euler();
        if e == 1 && nsq < want {
            nsq += 1;
            ints.push(x);
        } else if e == -1 && nns < want {
            nns += 1;
            ints.push(x);
        }
    }
    // squares of the alphabet itself (roots known)
    let sq: Vec<BigUint> = ints.iter().take(40).map(|x| (x * x) % p).collect();
    ints.extend(sq);
    // elements whose in-memory (Montgomery) residue has a limb pattern (saturated limbs, limbs equal to the modulus limb)
    ints.extend(alpha::values_of_residues(p, limbs, &alpha::limb_pattern_residues(p, limbs, 3, ctx.tier.pick(false, true))));
    let ints = alpha::dedup(ints);
    let els: Vec<F> = ints.iter().map(|x| mk(x)).collect();
    let inj = ctx.injecting("C18");
    ctx.sweep(
        &format!("{}.sqrt_legendre", name),
        ints.len() as u64,
        |i| json!({"a": hex(&ints[i as usize])}),
        |i| {
            let a = &ints[i as usize];
            let fa = els[i as usize];
            let e = Zp::<M>::new_ref(a).euler();
            let l = leg(fa.legendre());
            if l != e {
                return Err(Fail::new(format!("{} legendre = {} but Euler criterion = {}", name, l, e)));
            }
            let s = guard(|| fa.sqrt()).map_err(|m| Fail::new(format!("{} sqrt panicked: {}", name, m)))?;
            match s {
                Some(b) => {
                    if e == -1 {
                        return Err(Fail::new(format!("{} sqrt returned a value for a non-residue", name)));
                    }
                    let mut b2 = b;
                    b2.square();
                    if inj && e == 1 {
                        b2.add_assign(&F::one());
                    }
                    if b2 != fa {
                        return Err(Fail::new(format!("{} sqrt(a)^2 != a", name)));
                    }
                }
                None => {
                    if e >= 0 {
                        return Err(Fail::new(format!("{} sqrt failed for a square", name)));
                    }
                }
            }
            Ok(match e {
                0 => "zero",
                1 => "residue",
                _ => "non-residue",
            })
        },
    );
    if let Some(sgn) = sgn {
        ctx.sweep(
            &format!("{}.sgn0", name),
            ints.len() as u64,
            |i| json!({"a": hex(&ints[i as usize])}),
            |i| {
                let a = &ints[i as usize];
                let fa = els[i as usize];
                let parity = bit(a, 0);
                let got = sgn(&fa) == Sgn0Result::Negative;
                if got != parity {
                    return Err(Fail::new(format!("{} sgn0 is not the parity of the canonical integer", name)));
                }
                let mut neg = fa;
                neg.negate();
                if !fa.is_zero() {
                    if sgn(&neg) == sgn(&fa) {
                        return Err(Fail::new(format!("{} sgn0(-y) == sgn0(y) for y != 0", name)));
                    }
                    if (fa > neg) == (neg > fa) {
                        return Err(Fail::new(format!("{}: not exactly one of y, -y is the larger", name)));
                    }
                    let bigger_is_y = *a > (p - a);
                    if (fa > neg) != bigger_is_y {
                        return Err(Fail::new(format!("{} order of y, -y differs from canonical integers", name)));
                    }
                }
                let _ = int;
                Ok(if parity { "odd" } else { "even" })
            },
        );
    }
}

pub fn run(ctx: &Ctx) -> (&'static str, &'static str) {
    prime_field::<Fq, MQ>(ctx, "Fq", q(), 6, fq, fq_int, Some(|x: &Fq| x.sgn0()));
    prime_field::<Fr, MR>(ctx, "Fr", r(), 4, fr, fr_int, None);
    // negate_if on Fq: the C08 boundary alphabet and every limb-pattern residue (a branch-free negation written on the raw limbs
    // has its own borrow chain), as a value and in canonical form
    {
        let mut rngn = ctx.rng("c18.fq.negate_if");
        let mut ys = alpha::field_values(q(), 6, &mut rngn, 8);
        ys.extend(alpha::values_of_residues(q(), 6, &alpha::limb_pattern_residues(q(), 6, 3, true)));
        let ys = alpha::dedup(ys);
        ctx.sweep(
            "Fq.negate_if",
            ys.len() as u64,
            |i| json!({"y": hex(&ys[i as usize])}),
            |i| {
                let yi = &ys[i as usize];
                let y = fq(yi);
                let mut a = y;
                a.negate_if(Sgn0Result::Negative);
                let mut b = y;
                b.negate_if(Sgn0Result::NonNegative);
                let want = if yi.is_zero() { BigUint::zero() } else { q() - yi };
                // fq_int checks the canonical form of the raw limbs as well
                if fq_int(&a) != want {
                    return Err(Fail::new("Fq negate_if(Negative) is not the field negation"));
                }
                if fq_int(&b) != *yi || b != y {
                    return Err(Fail::new("Fq negate_if(NonNegative) changed the element"));
                }
                let mut sum = a;
                sum.add_assign(&y);
                if !sum.is_zero() {
                    return Err(Fail::new("Fq: y + negate_if(y, Negative) != 0"));
                }
                Ok(if yi.is_zero() { "zero" } else { "negate_if" })
            },
        );
    }

    // ---------------- Fq2
    let qq = q();
    let mut rng = ctx.rng("c18.fq2");
    let base: Vec<Q1> = {
        let mut v = vec![Q1::zero(), Q1::one(), Q1::one().neg(), Q1::from_u64(2), Q1::from_u64(2).neg(), Q1::new((qq - 1u32) >> 1), Q1::new((qq + 1u32) >> 1), Q1::from_u64(4), Q1::from_u64(3)];
        // a few residues / non-residues of Fq
        let (mut a, mut b) = (0, 0);
        while a < 4 || b < 4 {
            let x = Q1::new(alpha::rand_below(&mut rng, qq));
            if x.euler() == 1 && a < 4 {
                a += 1;
                v.push(x);
            } else if x.euler() == -1 && b < 4 {
                b += 1;
                v.push(x);
            }
        }
        v
    };
    let mut els: Vec<Q2> = vec![];
    for a in &base {
        for b in &base {
            els.push(Q2::new(vec![a.clone(), b.clone()]));
        }
    }
    // class-targeted members: norm residue / non-residue, alpha == -1 branch (a^((q-1)/2) = -1 in Fq2)
    let want = ctx.tier.pick(48, 768);
    let e_half = (qq - 1u32) >> 1;
    let minus1 = Q2::one().neg();
    let (mut n_res, mut n_non, mut n_alpha) = (0usize, 0usize, 0usize);
    let mut tries = 0;
    while (n_res < want || n_non < want || n_alpha < want / 4) && tries < 100000 {
        tries += 1;
        let x = Q2::new(vec![Q1::new(alpha::rand_below(&mut rng, qq)), Q1::new(alpha::rand_below(&mut rng, qq))]);
        let sqr = x.is_square();
        if sqr && n_res < want {
            n_res += 1;
            els.push(x.clone());
        } else if !sqr && n_non < want {
            n_non += 1;
            els.push(x.clone());
        }
        if n_alpha < want / 4 {
            // squares of purely imaginary multiples: a = (t*u)^2 * s^2 ... take x^2 scaled so that a^((q-1)/2) = -1:
            // for a in Fq (embedded) that is a non-residue of Fq, a^((q-1)/2) = -1.
            let t = Q1::new(alpha::rand_below(&mut rng, qq));
            if t.euler() == -1 {
                let a = Q2::new(vec![t, Q1::zero()]);
                debug_assert!(a.pow(&e_half) == minus1);
                n_alpha += 1;
                els.push(a);
            }
        }
    }
    // more members of the alpha == -1 class that are not in Fq: a = b^2 with b^(q-1) = -1, i.e. b = c*u*... ; search
    let mut extra_alpha = 0;
    let mut tries2 = 0;
    while extra_alpha < ctx.tier.pick(4, 16) && tries2 < 2000 {
        tries2 += 1;
        // b purely imaginary times an Fq element is still purely imaginary; b^2 is then in Fq. Use the definition:
        let x = Q2::new(vec![Q1::new(alpha::rand_below(&mut rng, qq)), Q1::new(alpha::rand_below(&mut rng, qq))]);
        let a = x.sq();
        if a.pow(&e_half) == minus1 {
            extra_alpha += 1;
            els.push(a);
        }
    }
    // elements whose intermediate value alpha = a^((q-1)/2) of the square-root algorithm lands on special points:
    // alpha has norm +1 (a square) or -1 (a non-square); x -> x^((q-1)/2) is a bijection of the group of such
    // elements (gcd((q-1)/2, 2(q+1)) = 1), so a = alpha^e with e = ((q-1)/2)^(-1) mod 2(q+1)
    {
        let two_q1 = (qq + 1u32) << 1;
        let e_inv = modinv(&e_half, &two_q1).expect("(q-1)/2 invertible mod 2(q+1)");
        let mut n_special = 0;
        for c0 in [0u64, 1, 2, 3, 4, 5, 7] {
            for neg in [false, true] {
                let c0q = if neg { Q1::from_u64(c0).neg() } else { Q1::from_u64(c0) };
                for norm in [Q1::one(), Q1::one().neg()] {
                    // c1^2 = norm - c0^2
                    if let Some(c1) = norm.sub(&c0q.sq()).sqrt() {
                        for c1 in [c1.clone(), c1.neg()] {
                            let alpha = Q2::new(vec![c0q.clone(), c1]);
                            let a = alpha.pow(&e_inv);
                            assert!(a.pow(&e_half) == alpha, "construction of a with prescribed a^((q-1)/2) failed");
                            els.push(a);
                            n_special += 1;
                        }
                    }
                }
            }
        }
        ctx.require(n_special >= 12, "too few elements with a special intermediate value");
    }
    // power-of-two multiples of small elements: the norm a^2 + b^2 then has a prescribed 2-adic valuation (2k + v2(a^2+b^2)),
    // zero low limbs at every boundary, and so has every intermediate value of an integer algorithm run on it (binary gcd /
    // Jacobi symbol, shifting reductions)
    for k in [31usize, 32, 33, 40, 63, 64, 65, 96, 127, 128, 160, 190] {
        let p2 = Q1::new(alpha::pow2(k));
        for (a, b) in [(1u64, 0u64), (0, 1), (1, 1), (1, 2), (3, 0), (2, 3), (3, 5)] {
            els.push(Q2::new(vec![Q1::from_u64(a).mul(&p2), Q1::from_u64(b).mul(&p2)]));
        }
    }
    let mut seen = HashSet::new();
    els.retain(|x| seen.insert(x.clone()));
    let sub: Vec<Fq2> = els.iter().map(fq2_of).collect();
    ctx.require(n_res >= want && n_non >= want && n_alpha >= 1, "Fq2 class search came up short");
    let inj = ctx.injecting("C18");
    ctx.sweep(
        "Fq2.sqrt_legendre_sgn0",
        els.len() as u64,
        |i| json!({"a": hex_q2(&els[i as usize])}),
        |i| {
            let a = &els[i as usize];
            let fa = sub[i as usize];
            let n = a.norm();
            let e = n.euler();
            if leg(fa.legendre()) != e {
                return Err(Fail::new(format!("Fq2 legendre = {} but Euler criterion of the norm = {}", leg(fa.legendre()), e)));
            }
            let is_sq = e >= 0;
            let s = guard(|| fa.sqrt()).map_err(|m| Fail::new(format!("Fq2 sqrt panicked: {}", m)))?;
            match s {
                Some(b) => {
                    if !is_sq {
                        return Err(Fail::new("Fq2 sqrt returned a value for a non-square"));
                    }
                    let mut b2 = q2_of(&b).sq();
                    if inj && !a.is_zero() {
                        b2 = b2.add(&Q2::one());
                    }
                    if b2 != *a {
                        return Err(Fail::new("Fq2 sqrt(a)^2 != a"));
                    }
                }
                None => {
                    if is_sq {
                        return Err(Fail::new("Fq2 sqrt failed for a square"));
                    }
                }
            }
            // sgn0: parity of the first non-zero coefficient, real part first
            let want_sgn = a.sgn0() == 1;
            if (fa.sgn0() == Sgn0Result::Negative) != want_sgn {
                return Err(Fail::new("Fq2 sgn0 differs from RFC 9380 sgn0 (m = 2)"));
            }
            if !a.is_zero() {
                let mut neg = fa;
                neg.negate();
                if (fa > neg) == (neg > fa) {
                    return Err(Fail::new("Fq2: not exactly one of y, -y is the larger"));
                }
            }
            let alpha_m1 = !a.is_zero() && a.pow(&e_half) == minus1;
            Ok(if a.is_zero() {
                "zero"
            } else if alpha_m1 {
                "alpha=-1 branch"
            } else if a.c(1).is_zero() {
                "in Fq"
            } else if a.c(0).is_zero() {
                "purely imaginary"
            } else if is_sq {
                "norm residue"
            } else {
                "norm non-residue"
            })
        },
    );
    // sgn0 / order of y, -y on limb-boundary components: c0 and c1 each range over the C08 boundary alphabet
    // (multiples of 2^64, 2^128, ... 2^320, values with zero low limbs, zero / all-ones limbs)
    {
        let mut rngb = ctx.rng("c18.fq2.boundary");
        let mut comp: Vec<BigUint> = alpha::field_values(qq, 6, &mut rngb, 4);
        for k in 1..6usize {
            for m in [1u32, 2, 3] {
                comp.push((alpha::pow2(64 * k) * m) % qq);
                comp.push((alpha::pow2(64 * k) * m + alpha::pow2(320)) % qq);
            }
        }
        comp.extend(alpha::values_of_residues(qq, 6, &alpha::limb_pattern_residues(qq, 6, ctx.tier.pick(2, 3), false)));
        let comp = alpha::dedup(comp);
        let nb = comp.len() as u64;
        let rad = [nb, nb];
        ctx.sweep(
            "Fq2.sgn0_limb_boundaries",
            crate::infra::space(&rad),
            |i| {
                let d = unrank(i, &rad);
                json!({"c0": hex(&comp[d[0]]), "c1": hex(&comp[d[1]])})
            },
            |i| {
                let d = unrank(i, &rad);
                let a = Q2::new(vec![Q1::new_ref(&comp[d[0]]), Q1::new_ref(&comp[d[1]])]);
                let fa = fq2_of(&a);
                if (fa.sgn0() == Sgn0Result::Negative) != (a.sgn0() == 1) {
                    return Err(Fail::new("Fq2 sgn0 differs from RFC 9380 sgn0 (m = 2) on a limb-boundary element"));
                }
                // negate_if: the identity for NonNegative, the field negation for Negative - as a VALUE (==, is_zero) and in
                // canonical form (q2_of checks the raw limbs)
                {
                    let mut keep = fa;
                    keep.negate_if(Sgn0Result::NonNegative);
                    let mut flip = fa;
                    flip.negate_if(Sgn0Result::Negative);
                    let mut neg = fa;
                    neg.negate();
                    if keep != fa || q2_of(&keep) != a {
                        return Err(Fail::new("Fq2 negate_if(NonNegative) changed the element"));
                    }
                    if flip != neg || q2_of(&flip) != a.neg() || flip.is_zero() != a.is_zero() {
                        return Err(Fail::new("Fq2 negate_if(Negative) is not the field negation (as a value: ==, is_zero, canonical form)"));
                    }
                    let mut sum = flip;
                    sum.add_assign(&fa);
                    if !sum.is_zero() {
                        return Err(Fail::new("Fq2: y + negate_if(y, Negative) != 0"));
                    }
                }
                if !a.is_zero() {
                    let mut neg = fa;
                    neg.negate();
                    let na = a.neg();
                    let want_gt = (a.c(1).int(), a.c(0).int()) > (na.c(1).int(), na.c(0).int());
                    if (fa > neg) != want_gt || (fa > neg) == (neg > fa) {
                        return Err(Fail::new("Fq2: order of y, -y wrong on a limb-boundary element"));
                    }
                }
                Ok(if comp[d[0]].is_zero() { "c0 = 0 (c1 decides sgn0)" } else if (&comp[d[0]] % alpha::pow2(64)).is_zero() { "c0 non-zero with zero low limb(s)" } else { "generic" })
            },
        );
    }
    // ordering on all pairs of a sub-alphabet: (c1, c0) lexicographic on canonical integers
    let m = ctx.tier.pick(120usize, 400).min(els.len());
    let rad = [m as u64, m as u64];
    ctx.sweep(
        "Fq2.ord",
        crate::infra::space(&rad),
        |i| {
            let d = unrank(i, &rad);
            json!({"a": hex_q2(&els[d[0]]), "b": hex_q2(&els[d[1]])})
        },
        |i| {
            let d = unrank(i, &rad);
            let (a, b) = (&els[d[0]], &els[d[1]]);
            let want = a.c(1).int().cmp(b.c(1).int()).then(a.c(0).int().cmp(b.c(0).int()));
            let got = sub[d[0]].cmp(&sub[d[1]]);
            if got != want || sub[d[0]].partial_cmp(&sub[d[1]]) != Some(want) {
                return Err(Fail::new(format!("Fq2 order: got {:?}, lexicographic (c1,c0) says {:?}", got, want)));
            }
            Ok(if a.c(1) == b.c(1) { "tie on c1" } else { "c1 decides" })
        },
    );
    // ordering on pairs whose deciding coefficients agree in all higher limbs and differ, in limb l, by a prescribed amount:
    // small differences, differences of exactly 2^63, just below 2^64, and wrap-around patterns - in c0 with equal c1, in c1,
    // and for the embedded base field (c1 = 0); every comparison form (cmp, partial_cmp, <, >, <=, >=, max, min)
    {
        let diffs: [(u64, u64); 8] = [(0, 1), (0, 1 << 63), (1, (1 << 63) + 1), (5, (1 << 63) + 9), (0x10, 0xf000_0000_0000_0000), (0, u64::MAX), (1 << 62, (1 << 63) + (1 << 62)), (3, 1 << 32)];
        let mut pairs: Vec<(Q2, Q2, &'static str)> = vec![];
        let base_hi = BigUint::from(7u32); // common higher limbs (small, so that every value stays below q)
        for l in 0..6usize {
            for &(x, y) in diffs.iter() {
                // limb 5 of a canonical value is below 2^61: scale the prescribed limb values down there
                let (x, y) = if l == 5 { (x >> 4, y >> 4) } else { (x, y) };
                let hi = if l < 5 { &base_hi << (64 * (l + 1)) } else { BigUint::from(0u32) };
                let lo = BigUint::from(0x1234u32) % (BigUint::from(1u32) << (64 * l).max(1));
                let a = &hi + (BigUint::from(x) << (64 * l)) + if l > 0 { lo.clone() } else { BigUint::from(0u32) };
                let b = &hi + (BigUint::from(y) << (64 * l)) + if l > 0 { (&lo + 1u32) % (BigUint::from(1u32) << (64 * l)) } else { BigUint::from(0u32) };
                if &a >= q() || &b >= q() {
                    continue;
                }
                let (qa, qb) = (Q1::new(a), Q1::new(b));
                let c = Q1::from_u64(9);
                pairs.push((Q2::new(vec![qa.clone(), c.clone()]), Q2::new(vec![qb.clone(), c.clone()]), "c0 decides (equal c1)"));
                pairs.push((Q2::new(vec![c.clone(), qa.clone()]), Q2::new(vec![c.clone(), qb.clone()]), "c1 decides"));
                pairs.push((Q2::new(vec![qa.clone(), Q1::zero()]), Q2::new(vec![qb.clone(), Q1::zero()]), "embedded base field"));
            }
        }
        ctx.sweep(
            "Fq2.ord_limb_differences",
            pairs.len() as u64,
            |i| json!({"a": hex_q2(&pairs[i as usize].0), "b": hex_q2(&pairs[i as usize].1), "class": pairs[i as usize].2}),
            |i| {
                let (a, b, cls) = &pairs[i as usize];
                for (x, y) in [(a, b), (b, a), (a, a)] {
                    let want = x.c(1).int().cmp(y.c(1).int()).then(x.c(0).int().cmp(y.c(0).int()));
                    let (fx, fy) = (fq2_of(x), fq2_of(y));
                    let forms_ok = fx.cmp(&fy) == want
                        && fx.partial_cmp(&fy) == Some(want)
                        && (fx < fy) == (want == std::cmp::Ordering::Less)
                        && (fx > fy) == (want == std::cmp::Ordering::Greater)
                        && (fx <= fy) == (want != std::cmp::Ordering::Greater)
                        && (fx >= fy) == (want != std::cmp::Ordering::Less)
                        && std::cmp::max(fx, fy) == if want == std::cmp::Ordering::Greater { fx } else { fy }
                        && std::cmp::min(fx, fy) == if want == std::cmp::Ordering::Greater { fy } else { fx };
                    if !forms_ok {
                        return Err(Fail::new(format!("Fq2 order differs from the lexicographic (c1,c0) order of canonical integers on a pair that differs in one limb only ({}): cmp gives {:?}, integers say {:?}", cls, fx.cmp(&fy), want)));
                    }
                }
                Ok(*cls)
            },
        );
    }
    ctx.assume("Euler criterion and Tonelli-Shanks on big integers as the oracle; 'some square root' is accepted (either sign)");
    (
        "exploration",
        "Fq/Fr: the C08 boundary alphabet plus residues and non-residues found by the reference Euler criterion (>=64 each) and squares of alphabet members; Fq2: all pairs over an Fq alphabet containing 0, +-1, +-2, residues and non-residues (covers Fq-embedded with real / purely imaginary root, purely imaginary elements), plus >=48 norm-residues, norm-non-residues and members of the alpha=-1 branch found by reference computation; classes are computed by the model and the run fails as machinery if one is empty; ordering on all pairs of a sub-alphabet, and on pairs that agree in all higher limbs and differ in one limb by 1, 2^63, 2^64-1 and wrap-around patterns, through every comparison form",
    )
}
