//! C10 — multi-scalar multiplication returns sum [k_i]P_i for every shape of input.
use crate::alpha;
use crate::conv::*;
use crate::infra::{bump, guard, unrank, Ctx, Fail};
use crate::refmodel::*;
use crate::toy::*;
use crate::toymodel::Group;
use num_bigint::BigUint;
use num_traits::Zero;
use pairing_plus::bls12_381::{G1Affine, G2Affine};
use pairing_plus::{CurveAffine, CurveProjective};
use serde_json::json;

fn limbs4(k: &BigUint) -> [u64; 4] {
    let l = big_to_limbs(k, 4);
    [l[0], l[1], l[2], l[3]]
}
pub const PIPPINGER_BOUNDARIES: [usize; 16] = [1, 2, 20, 43, 105, 239, 578, 1258, 3464, 6492, 17146, 33676, 60319, 218189, 303280, 543651];

fn toy_msm<C: ToyCurve>(ctx: &Ctx, max_list: usize, big_n_limit: usize)
where
    C::P: Sync + Send,
    C::A: Sync + Send,
    C::F: Sync + Send,
{
    let name = C::NAME;
    let g = Group::<C>::build();
    let n = g.n();
    let affs: Vec<C::A> = (0..n).map(|i| g.aff(i)).collect();
    let inj = ctx.injecting("C10");
    // (a) all point lists up to max_list x all scalar tuples over a 6-element alphabet x windows
    let ks: Vec<BigUint> = vec![BigUint::zero(), BigUint::from(1u32), BigUint::from(2u32), alpha::pow2(63), alpha::pow2(64) + 1u32, alpha::pow2(255) - 1u32];
    let kl: Vec<[u64; 4]> = ks.iter().map(limbs4).collect();
    // precomp_256 tables for every point
    // one buffer re-used for every point in turn (so each table is written over the previous point's table)
    let mut buf = vec![C::A::zero(); 256];
    let mut tables: Vec<Vec<C::A>> = vec![vec![]; n];
    for i in (0..n).rev() {
        affs[i].precomp_256(&mut buf);
        tables[i] = buf.clone();
    }
    for len in 0..=max_list {
        // paths: pippinger windows 1..=20, default, precomp_256
        // the bucket reduction costs 2^w group additions per window position: all windows 1..=12 on the full product,
        // windows 13..=20 on a sub-alphabet below
        let wmax = if len <= 2 { 12 } else { ctx.tier.pick(6, 10) };
        let npaths = wmax as u64 + 2;
        let mut rad: Vec<u64> = vec![npaths];
        for _ in 0..len {
            rad.push(n as u64);
        }
        for _ in 0..len {
            rad.push(ks.len() as u64);
        }
        let rad2 = rad.clone();
        ctx.sweep(
            &format!("{}.lists.len{}", name, len),
            crate::infra::space(&rad),
            |i| {
                let d = unrank(i, &rad2);
                json!({"path": d[0], "points": &d[1..1 + len], "scalars": d[1 + len..].iter().map(|&j| hex(&ks[j])).collect::<Vec<_>>()})
            },
            |i| {
                let d = unrank(i, &rad);
                let pts: Vec<C::A> = d[1..1 + len].iter().map(|&j| affs[j]).collect();
                let sc: Vec<&[u64; 4]> = d[1 + len..].iter().map(|&j| &kl[j]).collect();
                let mut want = 0usize;
                for t in 0..len {
                    want = g.plus(want, g.mul_big(d[1 + t], &ks[d[1 + len + t]]));
                }
                let path = d[0];
                let got = if path < wmax {
                    C::A::sum_of_products_pippinger(&pts, &sc, path + 1)
                } else if path == wmax {
                    C::A::sum_of_products(&pts, &sc)
                } else {
                    let mut pre: Vec<C::A> = Vec::with_capacity(256 * len);
                    for t in 0..len {
                        pre.extend_from_slice(&tables[d[1 + t]]);
                    }
                    C::A::sum_of_products_precomp_256(&pts, &sc, &pre)
                };
                let mut gi = g.abs(&got).ok_or_else(|| Fail::new(format!("{}: MSM result left the curve", name)))?;
                if inj && len == 2 && d[1] == d[2] && d[1] != 0 && path == 3 {
                    gi = 0;
                }
                if gi != want {
                    return Err(Fail::new(format!("{}: multi-scalar multiplication != sum [k_i]P_i (path {})", name, if path < wmax { format!("pippinger window {}", path + 1) } else if path == wmax { "default".into() } else { "precomp_256".into() })));
                }
                let pidx = &d[1..1 + len];
                let dup = (0..len).any(|a| (0..a).any(|b| pidx[a] == pidx[b] && pidx[a] != 0));
                let inv = (0..len).any(|a| (0..a).any(|b| pidx[a] != 0 && g.neg[pidx[a]] as usize == pidx[b] && pidx[a] != pidx[b]));
                let idp = pidx.iter().any(|&p| p == 0);
                Ok(if len == 0 { "empty" } else if dup { "repeated point" } else if inv { "mutually inverse points" } else if idp { "identity point" } else { "distinct points" })
            },
        );
    }
    // windows 13..=20 on lists over a sub-alphabet of points and scalars (incl. all-ones, which fills every bucket)
    {
        let psel: Vec<usize> = {
            let gen = (1..n).max_by_key(|&i| g.order[i]).unwrap();
            let mut v = vec![0usize, gen, g.neg[gen] as usize, g.plus(gen, gen)];
            if !ctx.quick() {
                v.push((1..n).find(|&i| g.order[i] == 3).unwrap_or(1));
                v.push(g.mul_u64(gen, 5));
            }
            v.truncate(ctx.tier.pick(3, 6));
            v
        };
        let ksel: Vec<usize> = ctx.tier.pick(vec![1, 4, 5], vec![0, 1, 2, 3, 4, 5]);
        for len in 1..=2usize {
            let mut rad: Vec<u64> = vec![8];
            for _ in 0..len {
                rad.push(psel.len() as u64);
            }
            for _ in 0..len {
                rad.push(ksel.len() as u64);
            }
            let rad2 = rad.clone();
            ctx.sweep(
                &format!("{}.lists_big_windows.len{}", name, len),
                crate::infra::space(&rad),
                |i| {
                    let d = unrank(i, &rad2);
                    json!({"window": d[0] + 13, "points": d[1..1 + len].iter().map(|&j| psel[j]).collect::<Vec<_>>(), "scalars": d[1 + len..].iter().map(|&j| hex(&ks[ksel[j]])).collect::<Vec<_>>()})
                },
                |i| {
                    let d = unrank(i, &rad);
                    let pidx: Vec<usize> = d[1..1 + len].iter().map(|&j| psel[j]).collect();
                    let kidx: Vec<usize> = d[1 + len..].iter().map(|&j| ksel[j]).collect();
                    let pts: Vec<C::A> = pidx.iter().map(|&j| affs[j]).collect();
                    let sc: Vec<&[u64; 4]> = kidx.iter().map(|&j| &kl[j]).collect();
                    let mut want = 0usize;
                    for t in 0..len {
                        want = g.plus(want, g.mul_big(pidx[t], &ks[kidx[t]]));
                    }
                    let got = C::A::sum_of_products_pippinger(&pts, &sc, d[0] + 13);
                    if g.abs(&got) != Some(want) {
                        return Err(Fail::new(format!("{}: pippinger window {} != sum [k_i]P_i", name, d[0] + 13)));
                    }
                    Ok("large window")
                },
            );
        }
    }
    // (d) single-bit scalars at every position x windows 1..=20 (window straddling each word boundary)
    let gen = (1..n).max_by_key(|&i| g.order[i]).unwrap();
    let gen2 = g.plus(gen, gen);
    let rad = [255u64, 20];
    ctx.sweep(
        &format!("{}.single_bits", name),
        crate::infra::space(&rad),
        |i| {
            let d = unrank(i, &rad);
            json!({"bit": d[0], "window": d[1] + 1})
        },
        |i| {
            let d = unrank(i, &rad);
            let k1 = alpha::pow2(d[0]);
            // second scalar: all-ones below the bit and a neighbour bit, so the masks see dirty neighbours
            let k2 = if d[1] + 1 <= 12 { (alpha::pow2(255) - 1u32) ^ alpha::pow2(d[0]) } else { alpha::pow2((d[0] + 1) % 255) + alpha::pow2((d[0] + 254) % 255) };
            let (l1, l2) = (limbs4(&k1), limbs4(&k2));
            let pts = [affs[gen], affs[gen2]];
            let got = C::A::sum_of_products_pippinger(&pts, &[&l1, &l2], d[1] + 1);
            let want = g.plus(g.mul_big(gen, &k1), g.mul_big(gen2, &k2));
            if g.abs(&got) != Some(want) {
                return Err(Fail::new(format!("{}: pippinger window {} wrong for single bit {} / complement", name, d[1] + 1, d[0])));
            }
            Ok(if (d[0] % 64) < d[1] { "window straddles a word boundary" } else { "window inside a word" })
        },
    );
    // (c) mismatched lengths
    let lens = [0usize, 1, 2, 5];
    let rad = [4u64, 4, 23];
    ctx.sweep(
        &format!("{}.mismatched_lengths", name),
        crate::infra::space(&rad),
        |i| {
            let d = unrank(i, &rad);
            json!({"points": lens[d[0]], "scalars": lens[d[1]], "path": d[2]})
        },
        |i| {
            let d = unrank(i, &rad);
            let (np, ns) = (lens[d[0]], lens[d[1]]);
            let pidx: Vec<usize> = (0..np).map(|t| 1 + (t * 7 + 3) % (n - 1)).collect();
            let pts: Vec<C::A> = pidx.iter().map(|&j| affs[j]).collect();
            let kv: Vec<BigUint> = (0..ns).map(|t| (alpha::pow2(200 + t) + BigUint::from(3u32 + t as u32)) % alpha::pow2(255)).collect();
            let kls: Vec<[u64; 4]> = kv.iter().map(limbs4).collect();
            let sc: Vec<&[u64; 4]> = kls.iter().collect();
            let m = np.min(ns);
            let mut want = 0usize;
            for t in 0..m {
                want = g.plus(want, g.mul_big(pidx[t], &kv[t]));
            }
            let got = guard(|| {
                if d[2] < 20 {
                    C::A::sum_of_products_pippinger(&pts, &sc, d[2] + 1)
                } else if d[2] == 20 {
                    C::A::sum_of_products(&pts, &sc)
                } else {
                    // path 21: table for exactly the points given; path 22: a table that covers 5 bases (a fixed-base
                    // table used on a prefix of its bases)
                    let nt = if d[2] == 21 { np } else { 5 };
                    let mut pre: Vec<C::A> = vec![];
                    for t in 0..nt {
                        pre.extend_from_slice(&tables[1 + (t * 7 + 3) % (n - 1)]);
                    }
                    C::A::sum_of_products_precomp_256(&pts, &sc, &pre)
                }
            })
            .map_err(|e| Fail::new(format!("{}: MSM panicked on mismatched lengths ({} points, {} scalars): {}", name, np, ns, e)))?;
            if g.abs(&got) != Some(want) {
                return Err(Fail::new(format!("{}: MSM on mismatched lengths is not the sum over the first min(#points,#scalars) entries", name)));
            }
            Ok(if np != ns { "mismatched" } else if np == 0 { "empty" } else { "equal lengths" })
        },
    );
    // (b) lengths around every window-selection boundary through the default entry
    let mut ns: Vec<usize> = vec![];
    for &b in PIPPINGER_BOUNDARIES.iter() {
        for v in [b.saturating_sub(1), b, b + 1] {
            if v <= big_n_limit && v > 0 {
                ns.push(v);
            }
        }
    }
    // powers of two and multiples of 4096 (plausible internal batch / chunk sizes), with their neighbours
    for k in 1..=17u32 {
        let p = 1usize << k;
        for v in [p - 1, p, p + 1] {
            if v <= big_n_limit.max(16385) && v > 0 {
                ns.push(v);
            }
        }
    }
    for m in [3usize, 5, 6] {
        let v = m * 4096;
        if v <= big_n_limit.max(16385) {
            ns.extend_from_slice(&[v - 1, v, v + 1]);
        }
    }
    ns.sort();
    ns.dedup();
    let patterns = 3u64;
    let rad = [ns.len() as u64, patterns];
    let kpat: Vec<BigUint> = {
        let mut rng = ctx.rng("c10.kpat");
        let mut v = vec![BigUint::zero(), BigUint::from(1u32), alpha::pow2(255) - 1u32, alpha::pow2(64), alpha::pow2(254) + alpha::pow2(63)];
        for _ in 0..8 {
            v.push(alpha::rand_bits(&mut rng, 255));
        }
        v
    };
    let kpl: Vec<[u64; 4]> = kpat.iter().map(limbs4).collect();
    ctx.sweep(
        &format!("{}.boundary_lengths", name),
        crate::infra::space(&rad),
        |i| {
            let d = unrank(i, &rad);
            json!({"n": ns[d[0]], "pattern": d[1], "selected_window": C::A::find_pippinger_window(ns[d[0]])})
        },
        |i| {
            let d = unrank(i, &rad);
            let nn = ns[d[0]];
            let stride = [1usize, 5, 11][d[1]];
            let mut pts = Vec::with_capacity(nn);
            let mut sc: Vec<&[u64; 4]> = Vec::with_capacity(nn);
            let mut want = 0usize;
            // per (point, scalar-pattern) contribution, cached
            let mut cache = vec![usize::MAX; n * kpat.len()];
            for t in 0..nn {
                let pj = (t * stride) % n; // cycles through all points incl. identity, duplicates and inverses
                let kj = (t * 3 + d[1]) % kpat.len();
                pts.push(affs[pj]);
                sc.push(&kpl[kj]);
                let c = &mut cache[pj * kpat.len() + kj];
                if *c == usize::MAX {
                    *c = g.mul_big(pj, &kpat[kj]);
                }
                want = g.plus(want, *c);
            }
            let got = C::A::sum_of_products(&pts, &sc);
            if g.abs(&got) != Some(want) {
                return Err(Fail::new(format!("{}: default MSM wrong for n = {} (window {})", name, nn, C::A::find_pippinger_window(nn))));
            }
            // the same lists through the table-driven variant (tables of all bases concatenated) and the bucket method at two
            // fixed windows, for list lengths up to ~1000: block / chunk boundaries inside those paths
            if nn <= 1100 {
                let mut pre: Vec<C::A> = Vec::with_capacity(nn * 256);
                for t in 0..nn {
                    pre.extend_from_slice(&tables[(t * stride) % n]);
                }
                let got = guard(|| C::A::sum_of_products_precomp_256(&pts, &sc, &pre)).map_err(|e| Fail::new(format!("{}: table-driven MSM panicked for n = {}: {}", name, nn, e)))?;
                if g.abs(&got) != Some(want) {
                    return Err(Fail::new(format!("{}: table-driven MSM (sum_of_products_precomp_256) wrong for n = {}", name, nn)));
                }
                for w in [3usize, 7] {
                    let got = C::A::sum_of_products_pippinger(&pts, &sc, w);
                    if g.abs(&got) != Some(want) {
                        return Err(Fail::new(format!("{}: bucket method at window {} wrong for n = {}", name, w, nn)));
                    }
                }
                bump(3);
            }
            bump(nn as u64 - 1);
            Ok("boundary length")
        },
    );
}

fn window_range<A: CurveAffine>(ctx: &Ctx, name: &str) {
    let mut ns: Vec<usize> = (0..ctx.tier.pick(3000usize, 700000)).collect();
    for &b in PIPPINGER_BOUNDARIES.iter() {
        ns.extend_from_slice(&[b - 1, b, b + 1]);
    }
    for s in 0..64 {
        let p = 1usize << s;
        ns.extend_from_slice(&[p - 1, p, p.wrapping_add(1)]);
    }
    ns.push(usize::MAX);
    ns.push(usize::MAX - 1);
    ns.sort();
    ns.dedup();
    let chunk = 4096usize;
    let nch = (ns.len() + chunk - 1) / chunk;
    ctx.sweep(
        &format!("{}.find_pippinger_window", name),
        nch as u64,
        |i| json!({"n_from": ns[i as usize * chunk], "count": chunk}),
        |i| {
            let lo = i as usize * chunk;
            let hi = (lo + chunk).min(ns.len());
            for &v in &ns[lo..hi] {
                let w = A::find_pippinger_window(v);
                if !(1..=16).contains(&w) {
                    return Err(Fail::new(format!("{}: find_pippinger_window({}) = {} outside 1..=16", name, v, w)));
                }
            }
            bump((hi - lo) as u64 - 1);
            Ok("window range")
        },
    );
}

fn real_msm<C: RealCurve>(ctx: &Ctx)
where
    C::Aff: CurveAffine,
{
    let name = C::NAME;
    let c = C::curve();
    let g = C::gen();
    let mut rng = ctx.rng("c10.real");
    // points as known multiples of the generator: expected result = [sum k_i a_i mod r] g
    let mut mults: Vec<BigUint> = vec![BigUint::from(1u32), BigUint::from(2u32), r() - 1u32, BigUint::zero(), alpha::rand_below(&mut rng, r()), BigUint::from(1u32)];
    let extra = ctx.tier.pick(24, 80);
    for _ in 0..extra {
        mults.push(alpha::rand_below(&mut rng, r()));
    }
    let pts_ref: Vec<Pt<C::K>> = crate::infra::par_map(mults.len(), |i| c.mul(&g, &mults[i]));
    let affs: Vec<C::Aff> = pts_ref.iter().map(|p| C::aff_of(p)).collect();
    let ks: Vec<BigUint> = {
        let mut v = vec![BigUint::zero(), BigUint::from(1u32), alpha::pow2(255) - 1u32, alpha::pow2(64) + 1u32, alpha::pow2(127) + alpha::pow2(128), r() - 1u32, BigUint::from(2u32), alpha::pow2(63), alpha::pow2(64), alpha::pow2(254)];
        for _ in 0..ctx.tier.pick(2, 6) {
            v.push(alpha::rand_bits(&mut rng, 255));
        }
        v
    };
    let kl: Vec<[u64; 4]> = ks.iter().map(limbs4).collect();
    let tables: Vec<Vec<C::Aff>> = crate::infra::par_map(6, |i| {
        let mut pre = vec![C::Aff::zero(); 256];
        affs[i].precomp_256(&mut pre);
        pre
    });
    // expected values [m] g, cached per distinct m via a parallel pre-pass is overkill: compute per case
    let fb = FixedBase::new(&c, &g, 256);
    let expect = |idx: &[usize], kidx: &[usize]| -> Pt<C::K> {
        let mut e = BigUint::zero();
        for (p, k) in idx.iter().zip(kidx) {
            e = (e + &mults[*p] * &ks[*k]) % r();
        }
        fb.mul(&e)
    };
    // lists of length <= 3 over the first 6 points x scalar pairs x windows
    // on the real curves a bucket reduction at window w costs 2^w projective additions (~1 us each): windows up to 8
    // (quick) / 12 (thorough); windows 13..=20 are covered completely on the toy instances of the same code
    let wins: Vec<usize> = ctx.tier.pick(vec![1, 2, 3, 4, 5, 7, 8], (1..=12).collect());
    for len in 1..=ctx.tier.pick(2usize, 3) {
        let mut rad: Vec<u64> = vec![];
        for _ in 0..len {
            rad.push(6);
        }
        let nk = if len == 1 { ks.len() } else if len == 2 { ctx.tier.pick(6, ks.len()) } else { 6 };
        // cost of one bucket reduction on the real curves is 2^w projective additions: shorter window lists for longer lists
        let wins: Vec<usize> = wins.iter().cloned().filter(|w| *w <= if len == 1 { 12 } else if len == 2 { 10 } else { 8 }).collect();
        for _ in 0..len {
            rad.push(nk as u64);
        }
        let stride = if len == 3 { ctx.tier.pick(1, 7) as u64 } else { 1 };
        let total = crate::infra::space(&rad) / stride;
        let rad2 = rad.clone();
        ctx.sweep(
            &format!("{}.lists.len{}", name, len),
            total,
            |i| {
                let d = unrank(i * stride, &rad2);
                json!({"points(multiples of g)": d[..len].iter().map(|&j| hex(&mults[j])).collect::<Vec<_>>(), "scalars": d[len..].iter().map(|&j| hex(&ks[j])).collect::<Vec<_>>(), "paths": "pippinger windows, default, precomp_256"})
            },
            |i| {
                let d = unrank(i * stride, &rad);
                let pidx = &d[..len];
                let kidx = &d[len..];
                let pts: Vec<C::Aff> = pidx.iter().map(|&j| affs[j]).collect();
                let sc: Vec<&[u64; 4]> = kidx.iter().map(|&j| &kl[j]).collect();
                let want = expect(pidx, kidx);
                let mut results: Vec<(String, C::Proj)> = vec![];
                for &w in &wins {
                    results.push((format!("pippinger window {}", w), guard(|| C::Aff::sum_of_products_pippinger(&pts, &sc, w)).map_err(Fail::new)?));
                }
                results.push(("default".into(), guard(|| C::Aff::sum_of_products(&pts, &sc)).map_err(Fail::new)?));
                let mut pre: Vec<C::Aff> = vec![];
                for &j in pidx {
                    pre.extend_from_slice(&tables[j]);
                }
                results.push(("precomp_256".into(), guard(|| C::Aff::sum_of_products_precomp_256(&pts, &sc, &pre)).map_err(Fail::new)?));
                for (pn, got) in &results {
                    if C::pt_of(got) != want {
                        return Err(Fail::with(format!("{}: MSM ({}) != sum [k_i]P_i", name, pn), json!({"got": C::show(&C::pt_of(got)), "want": C::show(&want)})));
                    }
                }
                bump(results.len() as u64 - 1);
                Ok("real list")
            },
        );
    }
    // longer lists through the default entry, with planted duplicates / inverses / identities
    let big: Vec<usize> = ctx.tier.pick(vec![19, 20, 21, 64], vec![19, 20, 21, 42, 43, 44, 64, 104, 105, 106, 300]);
    ctx.sweep(
        &format!("{}.long_lists", name),
        big.len() as u64,
        |i| json!({"n": big[i as usize]}),
        |i| {
            let nn = big[i as usize];
            let pidx: Vec<usize> = (0..nn).map(|t| (t * 5 + 1) % mults.len()).collect();
            let kidx: Vec<usize> = (0..nn).map(|t| (t * 3 + 2) % ks.len()).collect();
            let pts: Vec<C::Aff> = pidx.iter().map(|&j| affs[j]).collect();
            let sc: Vec<&[u64; 4]> = kidx.iter().map(|&j| &kl[j]).collect();
            let got = guard(|| C::Aff::sum_of_products(&pts, &sc)).map_err(Fail::new)?;
            let want = expect(&pidx, &kidx);
            if C::pt_of(&got) != want {
                return Err(Fail::new(format!("{}: default MSM wrong for n = {}", name, nn)));
            }
            Ok("long list")
        },
    );
}

pub fn run(ctx: &Ctx) -> (&'static str, &'static str) {
    #[cfg(feature = "toy")]
    {
        toy_msm::<T19_4>(ctx, ctx.tier.pick(2, 3), ctx.tier.pick(3465, 543652));
        toy_msm::<T7_2>(ctx, 3, ctx.tier.pick(240, 6493));
        if !ctx.quick() {
            toy_msm::<T19X2>(ctx, 1, 1259);
        }
    }
    #[cfg(not(feature = "toy"))]
    ctx.degraded("toy-curve multi-scalar multiplication");
    window_range::<G1Affine>(ctx, "G1");
    window_range::<G2Affine>(ctx, "G2");
    #[cfg(feature = "toy")]
    {
        window_range::<crate::toy::t19_4::Aff>(ctx, "toy(19,4)");
    }
    #[cfg(not(feature = "toy"))]
    ctx.degraded("toy window range");
    real_msm::<RG1>(ctx);
    real_msm::<RG2>(ctx);
    ctx.assume("scalars are below 2^255 (the bucket method asserts it); table-driven variant gets tables built by the library's precomp_256");
    (
        "exploration",
        "toy curves through the repository's curve_impl!: ALL point lists of length <= 2-3 over all affine values (identity included) x all scalar tuples over {0,1,2,2^63,2^64+1,2^255-1} x {bucket method windows 1..=20, default entry, precomp_256}; single bits 0..254 (with an all-ones complement as second term) x windows 1..=20; all (points,scalars) length mismatches over {0,1,2,5}^2; list lengths b-1,b,b+1 around every window-selection boundary through the default entry with cyclic point/scalar patterns containing duplicates, inverses and identities; find_pippinger_window range sweep (the selected window is within 1..=16 for every length); real G1/G2: lists of known multiples of the generator against [sum k_i a_i mod r]g",
    )
}
