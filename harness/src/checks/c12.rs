//! C12 — final exponentiation is f -> f^(3(q^12-1)/r) on every non-zero f.
use crate::alpha;
use crate::conv::*;
use crate::infra::{guard, par_map, unrank, Ctx, Fail};
use crate::refmodel::*;
use ff::Field;
use pairing_plus::bls12_381::{Bls12, Fq12};
use pairing_plus::{CurveAffine, Engine};
use serde_json::json;

pub fn show12(x: &Q12) -> serde_json::Value {
    json!(q12_coeffs(x).iter().map(hex_q1).collect::<Vec<_>>())
}

pub fn run(ctx: &Ctx) -> (&'static str, &'static str) {
    let q = q();
    let mut rng = ctx.rng("c12");
    let rq = |rng: &mut crate::infra::SplitMix| Q1::new(alpha::rand_below(rng, q));
    let mut els: Vec<(String, Q12)> = vec![];
    let u = embed_q2_in_q12(&Q2::gen());
    let v = embed_q6_in_q12(&Q6::gen());
    let w = Q12::gen();
    els.push(("0".into(), Q12::zero()));
    els.push(("1".into(), Q12::one()));
    els.push(("-1".into(), Q12::one().neg()));
    els.push(("2".into(), Q12::from_u64(2)));
    els.push(("u".into(), u.clone()));
    els.push(("v".into(), v.clone()));
    els.push(("w".into(), w.clone()));
    els.push(("v*w".into(), v.mul(&w)));
    els.push(("v^2*w".into(), v.mul(&v).mul(&w)));
    els.push(("1+w".into(), Q12::one().add(&w)));
    // subfield elements (must map to 1)
    for k in 0..ctx.tier.pick(2, 6) {
        els.push((format!("Fq element #{}", k), q12_from_coeffs(&{ let mut c = vec![Q1::zero(); 12]; c[0] = rq(&mut rng); c })));
        els.push((format!("Fq2 element #{}", k), embed_q2_in_q12(&Q2::new(vec![rq(&mut rng), rq(&mut rng)]))));
        els.push((format!("Fq6 element #{}", k), embed_q6_in_q12(&q6_from_coeffs(&(0..6).map(|_| rq(&mut rng)).collect::<Vec<_>>()))));
    }
    // PRESCRIBED NORM: elements a of Fq with a^12 = t * 2^-384 for small t - the value that the innermost inversion of the easy
    // part (Fq12 -> Fq6 -> Fq2 -> Fq: the norm down to Fq) receives then has the in-memory word t.  An inversion algorithm whose
    // iteration count depends on the operand (binary / Kaliski) takes its shortest paths there.  12th roots by the root finder
    // (a sixth of all values have one); also a times a unitary element (same norm, generic coordinates).
    {
        let rinv = Q1::new(alpha::pow2(384) % q).inv().unwrap();
        let mut seed = crate::infra::SplitMix(0xC12_0012);
        let mut found = 0;
        let unitary = {
            let gq = q12_from_coeffs(&(0..12).map(|_| rq(&mut rng)).collect::<Vec<_>>());
            frob12(&gq, 6).mul(&gq.inv().unwrap())
        };
        for t in 1u64..=200 {
            if found >= ctx.tier.pick(4, 16) {
                break;
            }
            let c = Q1::from_u64(t).mul(&rinv);
            let mut f = vec![Q1::zero(); 13];
            f[0] = c.neg();
            f[12] = Q1::one();
            let mut rnd = || Q1::from_u64(seed.next() | 1).mul(&Q1::from_u64(seed.next() | 1));
            if let Some(a) = crate::polyroots::roots(&f, q, &mut rnd).into_iter().next() {
                found += 1;
                let e = q12_from_coeffs(&{ let mut cc = vec![Q1::zero(); 12]; cc[0] = a; cc });
                els.push((format!("Fq element a with a^12 = {} in Montgomery form", t), e.clone()));
                els.push((format!("(Fq element a with a^12 = {} in Montgomery form) x unitary element", t), e.mul(&unitary)));
            }
        }
        ctx.require(found >= 2, "no 12th roots found for the prescribed-norm elements");
    }
    // pure-w-part elements (c0 = 0)
    for k in 0..ctx.tier.pick(2, 6) {
        els.push((format!("c0 = 0 element #{}", k), Q12::new(vec![Q6::zero(), q6_from_coeffs(&(0..6).map(|_| rq(&mut rng)).collect::<Vec<_>>())])));
    }
    // sparse masks: single coefficients and a few masks
    let masks: Vec<u32> = if ctx.quick() { vec![1 << 1, 1 << 6, 1 << 11, 0b101010101010, 0b000111000111] } else { (0..12).map(|i| 1u32 << i).chain(vec![0b101010101010, 0b010101010101, 0b000111000111, 0b111000111000, 0b100000000001, 0b000001100000]).collect() };
    for m in &masks {
        let c: Vec<Q1> = (0..12).map(|i| if (m >> i) & 1 == 1 { rq(&mut rng) } else { Q1::zero() }).collect();
        els.push((format!("sparsity mask {:#014b}", m), q12_from_coeffs(&c)));
    }
    // Miller-loop outputs of the library on subgroup points
    let g1 = g1aff_of(&g1_gen());
    let g2 = g2aff_of(&g2_gen());
    let ml = Bls12::miller_loop([(&g1.prepare(), &g2.prepare())].iter());
    els.push(("miller_loop(g1,g2)".into(), q12_of(&ml)));
    let mut ml2 = ml;
    ml2.square();
    els.push(("miller_loop(g1,g2)^2".into(), q12_of(&ml2)));
    // r-th roots of unity: e(g1,g2) and a power
    els.push(("e(g1,g2) (r-th root of unity)".into(), e_g1_g2().clone()));
    els.push(("e(g1,g2)^5".into(), e_g1_g2().pow(&bu(5))));
    for k in 0..ctx.tier.pick(8, 300) {
        els.push((format!("seeded dense #{}", k), q12_from_coeffs(&(0..12).map(|_| rq(&mut rng)).collect::<Vec<_>>())));
    }
    // coordinates whose IN-MEMORY (Montgomery) form is special: all-ones low limbs next to raw 1 (carry chains and double-width
    // accumulations inside the tower arithmetic the easy part starts with), in the positions that meet in the first products
    {
        let rinv = Q1::new(alpha::pow2(384) % q).inv().unwrap();
        let raw = |x: num_bigint::BigUint| Q1::new(x % q).mul(&rinv);
        let one_raw = raw(num_bigint::BigUint::from(1u32));
        for l in 1..=ctx.tier.pick(3usize, 5) {
            let ones = raw(alpha::pow2(64 * l) - 1u32);
            let mut c = vec![one_raw.clone(); 12];
            c[0] = ones.clone(); // c0.c0.c0
            els.push((format!("Montgomery-form coordinates: 2^{}-1 beside raw ones", 64 * l), q12_from_coeffs(&c)));
            let mut c = vec![Q1::zero(); 12];
            c[0] = ones.clone();
            c[1] = one_raw.clone();
            c[2] = one_raw.clone();
            c[3] = one_raw.clone();
            c[7] = raw(alpha::pow2(64 * l));
            els.push((format!("Montgomery-form coordinates: sparse, 2^{}-1 and 2^{}", 64 * l, 64 * l), q12_from_coeffs(&c)));
        }
    }
    // reference values (parallel)
    let want: Vec<Option<Q12>> = par_map(els.len(), |i| if els[i].1.is_zero() { None } else { Some(final_exp_textbook(&els[i].1)) });
    let inj = ctx.injecting("C12");
    ctx.sweep(
        "final_exponentiation",
        els.len() as u64,
        |i| json!({"f": els[i as usize].0, "coefficients": show12(&els[i as usize].1)}),
        |i| {
            let (name, f) = &els[i as usize];
            let got = guard(|| Bls12::final_exponentiation(&fq12_of(f))).map_err(|m| Fail::new(format!("final_exponentiation panicked on {}: {}", name, m)))?;
            match (&want[i as usize], got) {
                (None, None) => Ok("zero -> None"),
                (None, Some(_)) => Err(Fail::new("final_exponentiation(0) returned a value")),
                (Some(_), None) => Err(Fail::new(format!("final_exponentiation failed on the non-zero element {}", name))),
                (Some(wv), Some(g)) => {
                    let mut gq = q12_of(&g);
                    if inj && name.starts_with("c0 = 0") {
                        gq = gq.add(&Q12::one());
                    }
                    if gq != *wv {
                        return Err(Fail::with(format!("final_exponentiation({}) != f^(3(q^12-1)/r)", name), json!({"got": show12(&gq), "want": show12(wv)})));
                    }
                    if (name.starts_with("Fq") || name == "1" || name == "-1" || name == "2" || name == "u" || name == "v") && *wv != Q12::one() {
                        return Err(Fail::new(format!("reference: subfield element {} not mapped to 1 (model inconsistency)", name)));
                    }
                    Ok(if name.starts_with("Fq") || name.len() <= 2 { "proper-subfield element -> 1" } else if name.starts_with("c0 = 0") { "c0 = 0" } else { "unit" })
                }
            }
        },
    );
    // multiplicativity and order on a sub-alphabet (library values; the map itself was compared above)
    let sub: Vec<usize> = (0..els.len()).filter(|&i| !els[i].1.is_zero()).step_by((els.len() / 12).max(1)).collect();
    let rad = [sub.len() as u64, sub.len() as u64];
    ctx.sweep(
        "final_exponentiation.multiplicative",
        crate::infra::space(&rad),
        |i| {
            let d = unrank(i, &rad);
            json!({"f": els[sub[d[0]]].0, "g": els[sub[d[1]]].0})
        },
        |i| {
            let d = unrank(i, &rad);
            let (f, g) = (&els[sub[d[0]]].1, &els[sub[d[1]]].1);
            let fg = f.mul(g);
            let lhs = Bls12::final_exponentiation(&fq12_of(&fg)).ok_or_else(|| Fail::new("final_exponentiation failed on a product of units"))?;
            let mut rhs: Fq12 = Bls12::final_exponentiation(&fq12_of(f)).ok_or_else(|| Fail::new("final_exponentiation failed on a unit"))?;
            rhs.mul_assign(&Bls12::final_exponentiation(&fq12_of(g)).ok_or_else(|| Fail::new("final_exponentiation failed on a unit"))?);
            if lhs != rhs {
                return Err(Fail::new("final_exponentiation is not multiplicative"));
            }
            // into the r-th roots of unity (checked with the reference power)
            if d[0] == d[1] && q12_of(&lhs).pow(r()) != Q12::one() {
                return Err(Fail::new("final_exponentiation(f)^r != 1"));
            }
            Ok("pair")
        },
    );
    ctx.assume("the reference is generic square-and-multiply with the 4314-bit exponent 3(q^12-1)/r in the schoolbook tower (validated by C09 against the subject only through equality of results, never shared code)");
    (
        "exploration",
        "alphabet: 0, 1, -1, 2, the generators u, v, w and products, elements of Fq / Fq2 / Fq6 embedded (must give 1), elements with c0 = 0, single-coefficient and structured sparsity masks, Miller-loop outputs, r-th roots of unity, seeded dense elements; each compared with f^(3(q^12-1)/r) by generic exponentiation on big integers; None exactly for 0; multiplicativity on all pairs of a 12-element sub-alphabet and result^r = 1; non-trivial = non-zero element",
    )
}
