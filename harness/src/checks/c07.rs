//! C07 — safe API results stay in the order-r subgroup; the membership predicate is exact.
use crate::alpha;
use crate::conv::*;
use crate::h2cref::Suite;
use crate::infra::{guard, par_map, unrank, Ctx, Fail};
use crate::mc::{explore, Sys};
use crate::points::*;
use crate::refmodel::*;
use num_bigint::BigUint;
use num_traits::{One, Zero};
use pairing_plus::bls12_381::{transmute, Fr, G1Affine, G1Compressed, G1Uncompressed, G2Affine, G2Compressed, G2Uncompressed, G1, G2};
use pairing_plus::serdes::SerDes;
use pairing_plus::{CurveAffine, CurveProjective, EncodedPoint, SubgroupCheck, Wnaf};
use rand_core::{RngCore, SeedableRng};
use rand_xorshift::XorShiftRng;
use serde_json::json;
use std::collections::HashMap;
use std::marker::PhantomData;
use std::sync::Mutex;

// ---------------------------------------------------------------------------------------------
// predicate
// ---------------------------------------------------------------------------------------------
struct Pair<K> {
    name: String,
    x: K,
    y: K,
    infinity: bool,
    expect: bool,
}

fn predicate_pairs<C: RealCurve>(pts: &[NamedPt<C::K>], mk: &dyn Fn(u64) -> C::K, sqrt: &dyn Fn(&C::K) -> Option<C::K>, twist_bs: &[C::K]) -> Vec<Pair<C::K>> {
    let c = C::curve();
    let mut v: Vec<Pair<C::K>> = vec![];
    for np in pts {
        match &np.p {
            Pt::Inf => v.push(Pair { name: "identity".into(), x: C::K::zero(), y: C::K::one(), infinity: true, expect: true }),
            Pt::Aff(x, y) => {
                v.push(Pair { name: np.name.clone(), x: x.clone(), y: y.clone(), infinity: false, expect: np.in_subgroup });
                // off-curve neighbours
                v.push(Pair { name: format!("{} with y+1 (off curve)", np.name), x: x.clone(), y: y.add(&C::K::one()), infinity: false, expect: false });
                v.push(Pair { name: format!("{} with x+1 (off curve)", np.name), x: x.add(&C::K::one()), y: y.clone(), infinity: false, expect: false });
                v.push(Pair { name: format!("{} negated", np.name), x: x.clone(), y: y.neg(), infinity: false, expect: np.in_subgroup });
            }
        }
    }
    // order-r points of the isomorphic curves y^2 = x^3 + b u^6: (u^2 x, u^3 y) for subgroup points (x, y).
    // The group-law formulas do not involve b, so such a pair is annihilated by r although it is off the curve.
    for np in pts.iter().filter(|p| p.in_subgroup).take(4) {
        if let Pt::Aff(x, y) = &np.p {
            for k in [2u64, 3, 5, 0x1234567] {
                let u = mk(k);
                let (u2, u3) = (u.sq(), u.sq().mul(&u));
                let (sx, sy) = (x.mul(&u2), y.mul(&u3));
                if c.on_curve(&Pt::Aff(sx.clone(), sy.clone())) {
                    continue;
                }
                v.push(Pair { name: format!("{} scaled onto an isomorphic curve (order r, off curve)", np.name), x: sx, y: sy, infinity: false, expect: false });
            }
        }
    }
    // points of other curves y^2 = x^3 + b' (twists and other b)
    for (bi, b) in twist_bs.iter().enumerate() {
        let tc = Curve { a: C::K::zero(), b: b.clone() };
        let mut k = 1u64;
        let mut found = 0;
        while found < 3 {
            let x = mk(k);
            k += 1;
            if let Some(y) = sqrt(&tc.rhs(&x)) {
                if c.on_curve(&Pt::Aff(x.clone(), y.clone())) {
                    continue;
                }
                found += 1;
                v.push(Pair { name: format!("point of y^2=x^3+b' (b' #{})", bi), x, y, infinity: false, expect: false });
            }
        }
    }
    v.push(Pair { name: "(0,0)".into(), x: C::K::zero(), y: C::K::zero(), infinity: false, expect: false });
    v
}

fn predicate_check<C: RealCurve>(ctx: &Ctx, pairs: &[Pair<C::K>], build: fn(&C::K, &C::K, bool) -> C::Aff, pred: fn(&C::Aff) -> bool) {
    let name = C::NAME;
    let c = C::curve();
    // re-derive every expectation with the reference model: on curve and [r]P = O
    let expect: Vec<bool> = par_map(pairs.len(), |i| {
        let p = &pairs[i];
        if p.infinity {
            return true;
        }
        let pt = Pt::Aff(p.x.clone(), p.y.clone());
        c.on_curve(&pt) && c.mul(&pt, r()).is_inf()
    });
    for (p, e) in pairs.iter().zip(&expect) {
        assert_eq!(p.expect, *e, "harness: class label and reference predicate disagree for {}", p.name);
    }
    ctx.require(expect.iter().filter(|e| **e).count() >= 6 && expect.iter().filter(|e| !**e).count() >= 12, "predicate alphabet lacks classes");
    let inj = ctx.injecting("C07");
    ctx.sweep(
        &format!("{}.in_subgroup", name),
        pairs.len() as u64,
        |i| json!({"pair": pairs[i as usize].name, "expected": expect[i as usize]}),
        |i| {
            let p = &pairs[i as usize];
            let a = build(&p.x, &p.y, p.infinity);
            let mut got = guard(|| pred(&a)).map_err(|m| Fail::new(format!("{}: in_subgroup panicked: {}", name, m)))?;
            if inj && p.name.contains("order 11") {
                got = true;
            }
            if got != expect[i as usize] {
                return Err(Fail::new(format!("{}: in_subgroup({}) = {} but the reference predicate (on curve and [r]P = O) says {}", name, p.name, got, expect[i as usize])));
            }
            Ok(if expect[i as usize] { "member" } else if p.name.contains("off curve") || p.name.contains("b'") || p.name == "(0,0)" { "not on the curve" } else { "on the curve, outside the subgroup" })
        },
    );
}

// ---------------------------------------------------------------------------------------------
// random sampling under a scripted RNG
// ---------------------------------------------------------------------------------------------
pub struct ScriptRng {
    /// per 6-word block: None = default stream, Some(words)
    script: Vec<Option<[u64; 6]>>,
    block: usize,
    queue: std::collections::VecDeque<u64>,
    fallback: XorShiftRng,
    pub blocks_used: usize,
}
impl ScriptRng {
    pub fn new(script: Vec<Option<[u64; 6]>>, seed: u64) -> Self {
        let mut s = [0u8; 16];
        s[..8].copy_from_slice(&seed.to_le_bytes());
        s[8..].copy_from_slice(&0x9e3779b97f4a7c15u64.to_le_bytes());
        ScriptRng { script, block: 0, queue: Default::default(), fallback: XorShiftRng::from_seed(s), blocks_used: 0 }
    }
}
impl RngCore for ScriptRng {
    fn next_u32(&mut self) -> u32 {
        self.fallback.next_u32()
    }
    fn next_u64(&mut self) -> u64 {
        if self.queue.is_empty() {
            let words = match self.script.get(self.block).cloned().flatten() {
                Some(w) => w,
                None => {
                    let mut w = [0u64; 6];
                    for x in w.iter_mut() {
                        *x = self.fallback.next_u64();
                    }
                    w
                }
            };
            self.block += 1;
            self.blocks_used += 1;
            assert!(self.blocks_used < 100_000, "random() did not terminate within the horizon");
            self.queue.extend(words.iter());
        }
        self.queue.pop_front().unwrap()
    }
    fn fill_bytes(&mut self, dest: &mut [u8]) {
        for b in dest.iter_mut() {
            *b = self.next_u64() as u8;
        }
    }
    fn try_fill_bytes(&mut self, dest: &mut [u8]) -> Result<(), rand_core::Error> {
        self.fill_bytes(dest);
        Ok(())
    }
}
/// raw Montgomery limbs that make Fq::random return the value x
fn raw_words(x: &BigUint) -> [u64; 6] {
    let rr = alpha::pow2(384) % q();
    let l = big_to_limbs(&((x * rr) % q()), 6);
    [l[0], l[1], l[2], l[3], l[4], l[5]]
}

fn random_check<C: RealCurve>(ctx: &Ctx, menu: &[(String, [u64; 6])], horizon: usize, max_dev: usize, sample: fn(&mut ScriptRng) -> C::Proj) {
    let name = C::NAME;
    let c = C::curve();
    // all scripts with at most max_dev deviations from the default answer within the horizon
    let mut scripts: Vec<Vec<Option<usize>>> = vec![vec![None; horizon]];
    let m = menu.len();
    for i in 0..horizon {
        for a in 0..m {
            let mut s = vec![None; horizon];
            s[i] = Some(a);
            scripts.push(s.clone());
            if max_dev >= 2 {
                for j in (i + 1)..horizon {
                    for b in 0..m {
                        let mut s2 = s.clone();
                        s2[j] = Some(b);
                        scripts.push(s2);
                    }
                }
            }
        }
    }
    ctx.sweep(
        &format!("{}.random_scripted_rng", name),
        scripts.len() as u64,
        |i| json!({"script": scripts[i as usize].iter().map(|c| c.map(|k| menu[k].0.clone()).unwrap_or_else(|| "default".into())).collect::<Vec<_>>()}),
        |i| {
            let s = &scripts[i as usize];
            let words: Vec<Option<[u64; 6]>> = s.iter().map(|c| c.map(|k| menu[k].1)).collect();
            let mut rng = ScriptRng::new(words, ctx.seed.wrapping_add(i));
            let p = guard(|| sample(&mut rng)).map_err(|m| Fail::new(format!("{}: random() failed: {}", name, m)))?;
            let pt = C::pt_of(&p);
            if !C::raw_on_curve(&p) || pt.is_inf() || !c.mul(&pt, r()).is_inf() {
                return Err(Fail::with(format!("{}: random() returned a point outside the order-r subgroup (or the identity)", name), json!(C::show(&pt))));
            }
            let devs = s.iter().filter(|c| c.is_some()).count();
            Ok(if devs == 0 { "default stream" } else if rng.blocks_used > 2 * devs + 2 { "deviations forcing retries" } else { "deviations" })
        },
    );
}

// ---------------------------------------------------------------------------------------------
// closure of the safe API: register file of known multiples of the generator
// ---------------------------------------------------------------------------------------------
#[derive(Clone, Debug, PartialEq, Eq, Hash)]
pub enum SAct {
    Add(u8, u8),
    Sub(u8, u8),
    Dbl(u8),
    Neg(u8),
    Mul(u8, u8),
    AffMul(u8, u8),
    WnafMul(u8, u8),
    AffineRoundTrip(u8),
    EncDec(u8, bool),
    SerDe(u8, bool),
    Msm(u8, u8),
    Precomp3Mul(u8, u8),
    Precomp256Mul(u8, u8),
    /// batch_normalization of the whole register file (in register order / reversed)
    BatchNorm(bool),
}
pub trait SafeOps: RealCurve {
    fn enc_dec(p: &Self::Proj, compressed: bool) -> Result<Self::Proj, String>;
    fn ser_de(p: &Self::Proj, compressed: bool) -> Result<Self::Proj, String>;
}
impl SafeOps for RG1 {
    fn enc_dec(p: &G1, compressed: bool) -> Result<G1, String> {
        let a = p.into_affine();
        let r = if compressed { G1Compressed::from_affine(a).into_affine() } else { G1Uncompressed::from_affine(a).into_affine() };
        r.map(|x| x.into_projective()).map_err(|e| format!("decode of an encoded subgroup point failed: {}", e))
    }
    fn ser_de(p: &G1, compressed: bool) -> Result<G1, String> {
        let mut buf = vec![];
        p.serialize(&mut buf, compressed).map_err(|e| e.to_string())?;
        G1::deserialize(&mut &buf[..], compressed).map_err(|e| format!("deserialize of a serialized subgroup point failed: {}", e))
    }
}
impl SafeOps for RG2 {
    fn enc_dec(p: &G2, compressed: bool) -> Result<G2, String> {
        let a = p.into_affine();
        let r = if compressed { G2Compressed::from_affine(a).into_affine() } else { G2Uncompressed::from_affine(a).into_affine() };
        r.map(|x| x.into_projective()).map_err(|e| format!("decode of an encoded subgroup point failed: {}", e))
    }
    fn ser_de(p: &G2, compressed: bool) -> Result<G2, String> {
        let mut buf = vec![];
        p.serialize(&mut buf, compressed).map_err(|e| e.to_string())?;
        G2::deserialize(&mut &buf[..], compressed).map_err(|e| format!("deserialize of a serialized subgroup point failed: {}", e))
    }
}

struct SReg<C: RealCurve> {
    p: C::Proj,
    key: String,
    exp: BigUint,
}
impl<C: RealCurve> Clone for SReg<C> {
    fn clone(&self) -> Self {
        SReg { p: self.p, key: self.key.clone(), exp: self.exp.clone() }
    }
}
impl<C: RealCurve> std::fmt::Debug for SReg<C> {
    fn fmt(&self, f: &mut std::fmt::Formatter) -> std::fmt::Result {
        write!(f, "[{}]g", hex(&self.exp))
    }
}
impl<C: RealCurve> PartialEq for SReg<C> {
    fn eq(&self, o: &Self) -> bool {
        self.key == o.key
    }
}
impl<C: RealCurve> Eq for SReg<C> {}
impl<C: RealCurve> std::hash::Hash for SReg<C> {
    fn hash<H: std::hash::Hasher>(&self, h: &mut H) {
        self.key.hash(h)
    }
}
struct SafeRegs<C: SafeOps> {
    inits: Vec<Vec<SReg<C>>>,
    scalars: Vec<BigUint>,
    fb: FixedBase<C::K>,
    cache: Mutex<HashMap<BigUint, Pt<C::K>>>,
    _c: PhantomData<C>,
}
fn sreg<C: RealCurve>(p: C::Proj, exp: BigUint) -> SReg<C> {
    SReg { p, key: C::show_raw(&p), exp }
}
impl<C: SafeOps> SafeRegs<C> {
    fn expected(&self, e: &BigUint) -> Pt<C::K> {
        if let Some(p) = self.cache.lock().unwrap().get(e) {
            return p.clone();
        }
        let p = self.fb.mul(e);
        self.cache.lock().unwrap().insert(e.clone(), p.clone());
        p
    }
}
impl<C: SafeOps> Sys for SafeRegs<C>
where
    C::Proj: CurveProjective<Scalar = Fr>,
{
    type S = Vec<SReg<C>>;
    type A = SAct;
    fn inits(&self) -> Vec<Self::S> {
        self.inits.clone()
    }
    fn actions(&self, s: &Self::S, out: &mut Vec<SAct>) {
        let n = s.len() as u8;
        out.push(SAct::BatchNorm(false));
        out.push(SAct::BatchNorm(true));
        for i in 0..n {
            for j in 0..n {
                if i != j {
                    out.push(SAct::Add(i, j));
                    out.push(SAct::Sub(i, j));
                    out.push(SAct::Msm(i, j));
                }
            }
            out.push(SAct::Dbl(i));
            out.push(SAct::Neg(i));
            out.push(SAct::AffineRoundTrip(i));
            out.push(SAct::EncDec(i, true));
            out.push(SAct::EncDec(i, false));
            out.push(SAct::SerDe(i, true));
            out.push(SAct::SerDe(i, false));
            for k in 0..self.scalars.len() as u8 {
                out.push(SAct::Mul(i, k));
                out.push(SAct::AffMul(i, k));
                if self.scalars[k as usize].bits() <= 255 {
                    out.push(SAct::WnafMul(i, k));
                }
                out.push(SAct::Precomp3Mul(i, k));
                if k < 2 {
                    out.push(SAct::Precomp256Mul(i, k));
                }
            }
        }
    }
    fn step(&self, s: &Self::S, a: &SAct) -> Result<Self::S, String> {
        let rr = r();
        let mut regs: Vec<SReg<C>> = s.clone();
        if let SAct::BatchNorm(rev) = *a {
            // the register file holds a mix of normalized values (after a round trip through affine form or a decoder),
            // identities and general representatives: exactly the slices on which the three passes must stay aligned
            let order: Vec<usize> = if rev { (0..regs.len()).rev().collect() } else { (0..regs.len()).collect() };
            let mut v: Vec<C::Proj> = order.iter().map(|&i| regs[i].p).collect();
            C::Proj::batch_normalization(&mut v);
            for (slot, &i) in order.iter().enumerate() {
                let p = v[slot];
                if !C::raw_on_curve(&p) {
                    return Err(format!("{}: batch_normalization left slot {} of the slice off the curve", C::NAME, slot));
                }
                if !p.is_zero() && !p.is_normalized() {
                    return Err(format!("{}: batch_normalization left slot {} of the slice not normalized", C::NAME, slot));
                }
                if C::pt_of(&p) != self.expected(&regs[i].exp) {
                    return Err(format!("{}: batch_normalization changed the point in slot {} of the slice (not the predicted multiple of the generator any more)", C::NAME, slot));
                }
                let e = regs[i].exp.clone();
                regs[i] = sreg::<C>(p, e);
            }
            return Ok(regs);
        }
        let (idx, newp, newe): (usize, C::Proj, BigUint) = match *a {
            SAct::Add(i, j) => {
                let mut p = regs[i as usize].p;
                p.add_assign(&regs[j as usize].p);
                (i as usize, p, (&regs[i as usize].exp + &regs[j as usize].exp) % rr)
            }
            SAct::Sub(i, j) => {
                let mut p = regs[i as usize].p;
                p.sub_assign(&regs[j as usize].p);
                (i as usize, p, (&regs[i as usize].exp + rr - &regs[j as usize].exp) % rr)
            }
            SAct::Dbl(i) => {
                let mut p = regs[i as usize].p;
                p.double();
                (i as usize, p, (&regs[i as usize].exp * 2u32) % rr)
            }
            SAct::Neg(i) => {
                let mut p = regs[i as usize].p;
                p.negate();
                (i as usize, p, (rr - &regs[i as usize].exp) % rr)
            }
            SAct::Mul(i, k) => {
                let mut p = regs[i as usize].p;
                p.mul_assign(frrepr(&self.scalars[k as usize]));
                (i as usize, p, (&regs[i as usize].exp * &self.scalars[k as usize]) % rr)
            }
            SAct::AffMul(i, k) => {
                let p = regs[i as usize].p.into_affine().mul(frrepr(&self.scalars[k as usize]));
                (i as usize, p, (&regs[i as usize].exp * &self.scalars[k as usize]) % rr)
            }
            SAct::WnafMul(i, k) => {
                let p: C::Proj = Wnaf::new().scalar(frrepr(&self.scalars[k as usize])).base(regs[i as usize].p);
                (i as usize, p, (&regs[i as usize].exp * &self.scalars[k as usize]) % rr)
            }
            SAct::Precomp3Mul(i, k) | SAct::Precomp256Mul(i, k) => {
                // tables built by the library's own precomputation; every table entry is handed out too
                let aff = regs[i as usize].p.into_affine();
                let n = if matches!(a, SAct::Precomp3Mul(..)) { 3 } else { 256 };
                let mut pre = vec![C::Aff::zero(); n];
                if n == 3 {
                    aff.precomp_3(&mut pre);
                } else {
                    aff.precomp_256(&mut pre);
                }
                for (j, e) in pre.iter().enumerate() {
                    // the 256-entry table is compared on a spread of entries here (C02 checks every entry)
                    if n == 256 && ![0usize, 1, 2, 3, 5, 8, 16, 32, 64, 128, 129, 255].contains(&j) {
                        continue;
                    }
                    // [m_j] of the register: m_j = 2^(64(j+1)) resp. sum of 2^(32 b) over the bits b of j
                    let mut m = BigUint::zero();
                    if n == 3 {
                        m = alpha::pow2(64 * (j + 1));
                    } else {
                        for b in 0..8 {
                            if (j >> b) & 1 == 1 {
                                m += alpha::pow2(32 * b);
                            }
                        }
                    }
                    let want = self.expected(&((&regs[i as usize].exp * m) % rr));
                    if C::pt_of_aff(e) != want {
                        return Err(format!("{}: precomputation table entry {} ({:?}) is not the predicted multiple of the generator (off the curve or outside the subgroup)", C::NAME, j, a));
                    }
                }
                let kk = frrepr(&self.scalars[k as usize]);
                let p = if n == 3 { aff.mul_precomp_3(kk, &pre) } else { aff.mul_precomp_256(kk, &pre) };
                (i as usize, p, (&regs[i as usize].exp * &self.scalars[k as usize]) % rr)
            }
            SAct::AffineRoundTrip(i) => (i as usize, regs[i as usize].p.into_affine().into_projective(), regs[i as usize].exp.clone()),
            SAct::EncDec(i, c) => (i as usize, C::enc_dec(&regs[i as usize].p, c)?, regs[i as usize].exp.clone()),
            SAct::SerDe(i, c) => (i as usize, C::ser_de(&regs[i as usize].p, c)?, regs[i as usize].exp.clone()),
            SAct::BatchNorm(_) => unreachable!(),
            SAct::Msm(i, j) => {
                let k1 = &self.scalars[1 % self.scalars.len()];
                let k2 = &self.scalars[2 % self.scalars.len()];
                let (l1, l2) = (big_to_limbs(&(k1 % alpha::pow2(255)), 4), big_to_limbs(&(k2 % alpha::pow2(255)), 4));
                let a1 = [l1[0], l1[1], l1[2], l1[3]];
                let a2 = [l2[0], l2[1], l2[2], l2[3]];
                let p = C::Aff::sum_of_products(&[regs[i as usize].p.into_affine(), regs[j as usize].p.into_affine()], &[&a1, &a2]);
                let e = (&regs[i as usize].exp * (k1 % alpha::pow2(255)) + &regs[j as usize].exp * (k2 % alpha::pow2(255))) % rr;
                (i as usize, p, e)
            }
        };
        if !C::raw_on_curve(&newp) {
            return Err(format!("{}: {:?} produced a value off the curve", C::NAME, a));
        }
        let want = self.expected(&newe);
        if C::pt_of(&newp) != want {
            return Err(format!("{}: {:?} produced a point that is not the predicted multiple of the generator (so not shown to be in the subgroup)", C::NAME, a));
        }
        regs[idx] = sreg::<C>(newp, newe);
        Ok(regs)
    }
}

fn closure_bfs<C: SafeOps>(ctx: &Ctx, depth: usize)
where
    C::Proj: CurveProjective<Scalar = Fr>,
{
    let sub = format!("{}.safe_api_closure", C::NAME);
    if !ctx.selected(&sub) {
        return;
    }
    ctx.trace(&format!("bfs {}", sub));
    let c = C::curve();
    let g = C::gen();
    assert!(c.mul(&g, r()).is_inf(), "reference: generator not of order r");
    let one = C::Proj::one();
    if C::pt_of(&one) != g || C::pt_of_aff(&C::Aff::one()) != g {
        ctx.violation(&sub, 0, Fail::new(format!("{}: one() is not the documented generator", C::NAME)));
        return;
    }
    let mut rng = ctx.rng("c07.closure");
    let k = alpha::rand_below(&mut rng, r());
    let mut kp = one;
    kp.mul_assign(frrepr(&k));
    let inits = vec![vec![sreg::<C>(one, BigUint::one()), sreg::<C>(kp, k.clone())], vec![sreg::<C>(one, BigUint::one()), sreg::<C>(C::Proj::zero(), BigUint::zero())]];
    let scalars = vec![BigUint::zero(), r() - 1u32, alpha::pow2(255) - 1u32, alpha::pow2(256) - 1u32];
    let sys = SafeRegs::<C> { inits, scalars, fb: FixedBase::new(&c, &g, 256), cache: Mutex::new(HashMap::new()), _c: PhantomData };
    let res = explore(sys, Some(depth), ctx.threads, false);
    ctx.add_mc(res.unique_states, res.transitions, res.transitions, vec![json!({"system": sub, "registers": 2, "unique_states": res.unique_states, "transitions": res.transitions, "depth_bound": depth, "max_depth": res.max_depth})]);
    ctx.count(&sub, res.transitions, res.transitions, false, None);
    if let Some((path, msg)) = res.violation {
        ctx.violation(&sub, 0, Fail::with(msg, json!({"actions": format!("{:?}", path)})));
    }
}

// ---------------------------------------------------------------------------------------------
// map / hash outputs
// ---------------------------------------------------------------------------------------------
fn map_outputs<S: Suite>(ctx: &Ctx, us: &[S::K]) {
    let name = S::NAME;
    let c = S::curve();
    let rad = [us.len() as u64, 3];
    ctx.sweep(
        &format!("{}.map outputs", name),
        crate::infra::space(&rad),
        |i| {
            let d = unrank(i, &rad);
            json!({"group": name, "call": (["map_to_curve(u)", "map2_to_curve(u,u)", "map2_to_curve(u,next u)"][d[1]]), "u": S::showk(&us[d[0]])})
        },
        |i| {
            let d = unrank(i, &rad);
            let u = &us[d[0]];
            let (call, p) = match d[1] {
                0 => ("map_to_curve", guard(|| S::lib_map(u))),
                1 => ("map2_to_curve(u,u)", guard(|| S::lib_map2(u, u))),
                _ => ("map2_to_curve", guard(|| S::lib_map2(u, &us[(d[0] + 1) % us.len()]))),
            };
            let p = p.map_err(|m| Fail::new(format!("{}: {} panicked: {}", name, call, m)))?;
            let pt = S::pt_of(&p);
            if !S::raw_on_curve(&p) || !c.mul(&pt, r()).is_inf() {
                return Err(Fail::new(format!("{}: {} handed out a point outside the order-r subgroup", name, call)));
            }
            Ok(call)
        },
    );
}

/// multi-scalar multiplication as a PRODUCER: lists in which contributions cancel - inside one bucket of one window pass
/// (P and -P, or P, Q and -(P+Q), under scalars that share a window digit), across the whole sum, or to the identity at the
/// end - through every entry point and window; the result must be on the curve and annihilated by r
fn msm_outputs<C: RealCurve>(ctx: &Ctx) {
    let name = C::NAME;
    let c = C::curve();
    let g = C::gen();
    let mult = |k: u64| c.mul(&g, &BigUint::from(k));
    let (p, q, t) = (mult(5), mult(11), mult(77));
    let pq = c.add(&p, &q);
    let lists: Vec<(&'static str, Vec<Pt<C::K>>)> = vec![
        ("[P, -P, T]", vec![p.clone(), c.neg(&p), t.clone()]),
        ("[T, P, -P]", vec![t.clone(), p.clone(), c.neg(&p)]),
        ("[P, Q, -(P+Q), T]", vec![p.clone(), q.clone(), c.neg(&pq), t.clone()]),
        ("[P, -P]", vec![p.clone(), c.neg(&p)]),
        ("[P, P, -2P, T]", vec![p.clone(), p.clone(), c.neg(&c.add(&p, &p)), t.clone()]),
        ("[P, O, -P, T]", vec![p.clone(), Pt::Inf, c.neg(&p), t.clone()]),
    ];
    let scal: Vec<(&'static str, [u64; 4])> = vec![
        ("equal scalars (small)", [0x2b, 0, 0, 0]),
        ("equal scalars (all words)", [0x1234_5678_9abc_def1, 0x0fed_cba9_8765_4321, 0x1111_2222_3333_4444, 0x0123_4567_89ab_cdef]),
        ("equal scalars: one set bit in the top word", [0, 0, 0, 1 << 20]),
    ];
    let other: [u64; 4] = [0x77, 5, 0, 9];
    let paths = ctx.tier.pick(vec![0usize, 1, 2, 4, 8], (0..=10).collect::<Vec<_>>());
    let rad = [lists.len() as u64, scal.len() as u64, paths.len() as u64 + 2];
    ctx.sweep(
        &format!("{}.msm outputs", name),
        crate::infra::space(&rad),
        |i| {
            let d = unrank(i, &rad);
            json!({"group": name, "points": lists[d[0]].0, "scalars": scal[d[1]].0, "entry": if d[2] < paths.len() { format!("sum_of_products_pippinger, window {}", paths[d[2]] + 1) } else if d[2] == paths.len() { "sum_of_products".into() } else { "sum_of_products_precomp_256".to_string() }})
        },
        |i| {
            let d = unrank(i, &rad);
            let pts: Vec<C::Aff> = lists[d[0]].1.iter().map(|p| C::aff_of(p)).collect();
            let n = pts.len();
            // the cancelling entries share the scalar; the trailing T gets another one
            let sc: Vec<&[u64; 4]> = (0..n).map(|j| if lists[d[0]].0.ends_with("T]") && j + 1 == n || lists[d[0]].0.starts_with("[T") && j == 0 { &other } else { &scal[d[1]].1 }).collect();
            let got = guard(|| {
                if d[2] < paths.len() {
                    C::Aff::sum_of_products_pippinger(&pts, &sc, paths[d[2]] + 1)
                } else if d[2] == paths.len() {
                    C::Aff::sum_of_products(&pts, &sc)
                } else {
                    let mut pre = vec![C::Aff::zero(); 256 * n];
                    for (j, p) in pts.iter().enumerate() {
                        p.precomp_256(&mut pre[256 * j..256 * (j + 1)]);
                    }
                    C::Aff::sum_of_products_precomp_256(&pts, &sc, &pre)
                }
            })
            .map_err(|m| Fail::new(format!("{}: multi-scalar multiplication panicked: {}", name, m)))?;
            let pt = C::pt_of(&got);
            if !C::raw_on_curve(&got) || !c.mul(&pt, r()).is_inf() {
                return Err(Fail::new(format!("{}: multi-scalar multiplication over a list with cancelling contributions handed out a point outside the order-r subgroup", name)));
            }
            Ok("cancelling list")
        },
    );
}

/// every value that a checked decoder or a deserializer hands out is on the curve and annihilated by r
fn decoder_outputs<C: crate::wire::WireCurve + SafeOps>(ctx: &Ctx, de_proj: fn(&[u8], bool) -> Option<C::Proj>, de_aff: fn(&[u8], bool) -> Option<C::Aff>)
where
    C::K: crate::refmodel::zcash::WireField,
{
    let c = C::curve();
    for compressed in [true, false] {
        let mut rng = ctx.rng(&format!("c07.wire.{}.{}", C::NAME, compressed));
        let (cases, pts) = crate::wire::wire_alphabet::<C>(&mut rng, compressed, true, ctx.tier.pick(64, 1024));
        let mem = crate::wire::Membership::new(c.clone());
        mem.preload(&pts);
        ctx.sweep(
            &format!("{}.decoder_outputs.{}", C::NAME, if compressed { "compressed" } else { "uncompressed" }),
            cases.len() as u64,
            |i| json!({"class": cases[i as usize].class, "bytes": crate::checks::c04::hexb(&cases[i as usize].bytes)}),
            |i| {
                let bytes = &cases[i as usize].bytes;
                let mut outs: Vec<(&str, Pt<C::K>)> = vec![];
                if let Ok(a) = guard(|| C::lib_decode(bytes, compressed, true)).map_err(Fail::new)? {
                    outs.push(("EncodedPoint::into_affine", C::pt_of_aff(&a)));
                }
                if let Some(p) = guard(|| de_proj(bytes, compressed)).map_err(Fail::new)? {
                    outs.push(("SerDes::deserialize (projective)", C::pt_of(&p)));
                }
                if let Some(a) = guard(|| de_aff(bytes, compressed)).map_err(Fail::new)? {
                    outs.push(("SerDes::deserialize (affine)", C::pt_of_aff(&a)));
                }
                for (what, p) in &outs {
                    if !c.on_curve(p) || !mem.test(p) {
                        return Err(Fail::with(format!("{}: {} handed out a point outside the order-r subgroup ({})", C::NAME, what, cases[i as usize].class), json!(C::show(p))));
                    }
                }
                Ok(if outs.is_empty() { "" } else { "accepted: subgroup point" })
            },
        );
    }
}

pub fn run(ctx: &Ctx) -> (&'static str, &'static str) {
    decoder_outputs::<RG1>(ctx, |b, c| G1::deserialize(&mut &b[..], c).ok(), |b, c| G1Affine::deserialize(&mut &b[..], c).ok());
    decoder_outputs::<RG2>(ctx, |b, c| G2::deserialize(&mut &b[..], c).ok(), |b, c| G2Affine::deserialize(&mut &b[..], c).ok());
    let mut rng = ctx.rng("c07.points");
    // predicate
    let p1 = g1_points(&mut rng, ctx.tier.pick(2, 6), ctx.tier.pick(2, 4));
    let twist1: Vec<Q1> = [1u64, 2, 3, 5, 24].iter().map(|b| Q1::from_u64(*b)).collect();
    let pairs1 = predicate_pairs::<RG1>(&p1, &|k| Q1::from_u64(k), &|x| x.sqrt(), &twist1);
    predicate_check::<RG1>(ctx, &pairs1, |x, y, inf| if inf { G1Affine::zero() } else { unsafe { transmute::g1_affine(fq_of(x), fq_of(y), false) } }, |a: &G1Affine| a.in_subgroup());
    let p2 = g2_points(&mut rng, ctx.tier.pick(2, 4), ctx.tier.pick(2, 5));
    let twist2: Vec<Q2> = vec![q2u(4, 0), q2u(1, 0), q2u(0, 4), q2u(4, 4).neg(), q2u(1, 1)];
    let pairs2 = predicate_pairs::<RG2>(&p2, &|k| q2u(k, 1), &|x| x.sqrt(), &twist2);
    predicate_check::<RG2>(ctx, &pairs2, |x, y, inf| if inf { G2Affine::zero() } else { unsafe { transmute::g2_affine(fq2_of(x), fq2_of(y), false) } }, |a: &G2Affine| a.in_subgroup());
    // random under a scripted RNG
    let c1 = e1();
    let mut menu: Vec<(String, [u64; 6])> = vec![("x = 0 (order-3 point, cofactor kills it)".into(), raw_words(&BigUint::zero()))];
    let mut k = 1u64;
    loop {
        if !c1.rhs(&Q1::from_u64(k)).is_square() {
            menu.push((format!("x = {} (no point with this x)", k), raw_words(&BigUint::from(k))));
            break;
        }
        k += 1;
    }
    if let Some(np) = p1.iter().find(|p| p.name.starts_with("P11 ")) {
        if let Pt::Aff(x, _) = &np.p {
            menu.push(("x of a point of order 11".into(), raw_words(x.int())));
        }
    }
    if let Some(np) = p1.iter().find(|p| p.name == "g1") {
        if let Pt::Aff(x, _) = &np.p {
            menu.push(("x of the generator".into(), raw_words(x.int())));
        }
    }
    random_check::<RG1>(ctx, &menu, ctx.tier.pick(6, 8), 2, |rng| G1::random(rng));
    let menu2: Vec<(String, [u64; 6])> = vec![("component = 0".into(), raw_words(&BigUint::zero())), ("component = 1".into(), raw_words(&BigUint::one())), ("component = q-1".into(), raw_words(&(q() - 1u32)))];
    random_check::<RG2>(ctx, &menu2, ctx.tier.pick(6, 8), 2, |rng| G2::random(rng));
    // closure of the safe API
    closure_bfs::<RG1>(ctx, ctx.tier.pick(2, 3));
    closure_bfs::<RG2>(ctx, ctx.tier.pick(1, 2));
    // map outputs (hash outputs are covered with the full reference in C06, decode outputs in C04/C19)
    let q = q();
    let mut us1: Vec<Q1> = vec![Q1::zero(), Q1::one(), Q1::one().neg()];
    if let Some(s) = sswu_z1().inv().unwrap().neg().sqrt() {
        us1.push(s);
    }
    let mut us2: Vec<Q2> = vec![Q2::zero(), Q2::one(), q2u(0, 1)];
    for _ in 0..ctx.tier.pick(6, 24) {
        us1.push(Q1::new(alpha::rand_below(&mut rng, q)));
        us2.push(Q2::new(vec![Q1::new(alpha::rand_below(&mut rng, q)), Q1::new(alpha::rand_below(&mut rng, q))]));
    }
    msm_outputs::<RG1>(ctx);
    msm_outputs::<RG2>(ctx);
    map_outputs::<RG1>(ctx, &us1);
    map_outputs::<RG2>(ctx, &us2);
    ctx.assume("random(): an RNG stream that never yields a usable x (e.g. all zeros forever) does not terminate; this is documented environment behaviour and outside the property (horizon 100000 blocks)");
    ctx.assume("closure: registers are tracked as known multiples of the generator (exponent arithmetic mod r); equality with the predicted multiple implies subgroup membership because the generator has order r (checked with the reference model)");
    (
        "model_checking",
        "membership predicate on coordinate pairs from every class (subgroup points, points of each small prime order dividing the cofactor, order l*r, full order, their negatives, off-curve neighbours (y+1, x+1), points of y^2=x^3+b' for five other b' incl. twists, (0,0), identity) against 'on curve and [r]P = O' on big integers; random() under a scripted RNG enumerating all answer sequences with <= 1-2 deviations (x = 0, x without a point, x of a small-order point, x of the generator) within a horizon of 4-8 draws; stateright BFS over a 2-register file of known multiples of the generator under the safe public operations (add, sub, double, negate, mul / affine mul / wNAF mul by {0, r-1, 2^255-1, 2^256-1}, affine round trip, encode->decode and serialize->deserialize in both formats, 2-term multi-scalar multiplication, batch_normalization of the register file in both orders) to depth 2-3 (G1) / 1-2 (G2), each transition compared with the predicted multiple of g; map_to_curve / map2_to_curve outputs incl. map2(u,u); every value accepted by the checked decoders and by the four point deserializers on the C04 byte-string alphabet",
    )
}
