//! C17 — cofactor clearing is multiplication by the RFC h_eff on the whole curve.
use crate::conv::*;
use crate::infra::{guard, unrank, Ctx, Fail};
use crate::points::*;
use crate::refmodel::*;
use crate::toy::*;
use crate::toymodel::Group;
use crate::zgroup::ZGroup;
use num_bigint::{BigInt, BigUint};
use pairing_plus::bls12_381::verif::{verif_chain_h2_eff, verif_chain_z, ClearH};
use pairing_plus::bls12_381::{G1, G2};
use pairing_plus::CurveProjective;
use serde_json::json;

/// RFC 9380 8.8.2 literal
pub fn rfc_h_eff_g2() -> BigUint {
    big("bc69f08f2ee75b3584c6a0ea91b352888e2a8e9145ad7689986ff031508ffe1329c2f178731db956d82bf015d1212b02ec0ec69d7477c1ae954cbc06689f6a359894c0adebbf6b4e8020005aaa95551")
}

fn toy_chains<C: ToyCurve>(ctx: &Ctx)
where
    C::P: Sync + Send,
    C::F: Sync + Send,
{
    let g = Group::<C>::build();
    let nz: Vec<C::F> = C::F::all_elems().into_iter().filter(|x| !ff::Field::is_zero(x)).collect();
    let lam = [nz[0], nz[nz.len() / 3], nz[nz.len() - 1]];
    let rad = [g.n() as u64, 3, 2];
    let z = bu(BLS_X_ABS);
    let h2e = params().h_eff_g2.clone();
    ctx.sweep(
        &format!("{}.chains", C::NAME),
        crate::infra::space(&rad),
        |i| {
            let d = unrank(i, &rad);
            json!({"chain": (["chain_z", "chain_h2_eff"][d[2]]), "point": d[0], "lambda#": d[1]})
        },
        |i| {
            let d = unrank(i, &rad);
            let p = g.rep(d[0], &lam[d[1]]);
            let mut out = C::P::zero();
            let m = if d[2] == 0 {
                verif_chain_z(&mut out, &p);
                &z
            } else {
                verif_chain_h2_eff(&mut out, &p);
                &h2e
            };
            if g.abs(&out) != Some(g.mul_big(d[0], m)) {
                return Err(Fail::new(format!("{}: addition chain result != [m]P on the toy curve", C::NAME)));
            }
            Ok(if d[0] == 0 { "" } else { "toy chain" })
        },
    );
}

fn real_clear<C: RealCurve>(ctx: &Ctx, pts: Vec<NamedPt<C::K>>, lams: &[C::K], h_eff: &BigUint, clear: fn(&mut C::Proj)) {
    let name = C::NAME;
    let c = C::curve();
    let want: Vec<Pt<C::K>> = crate::infra::par_map(pts.len(), |i| c.mul(&pts[i].p, h_eff));
    let in_sub: Vec<bool> = crate::infra::par_map(pts.len(), |i| c.mul(&want[i], r()).is_inf());
    ctx.require(pts.iter().filter(|p| !p.in_subgroup).count() >= 4, "clear_h alphabet lacks points outside the subgroup");
    let inj = ctx.injecting("C17");
    let rad = [pts.len() as u64, lams.len() as u64];
    ctx.sweep(
        &format!("{}.clear_h", name),
        crate::infra::space(&rad),
        |i| {
            let d = unrank(i, &rad);
            json!({"point": pts[d[0]].name, "lambda#": d[1]})
        },
        |i| {
            let d = unrank(i, &rad);
            let mut p = C::rep(&pts[d[0]].p, &lams[d[1]]);
            guard(|| clear(&mut p)).map_err(Fail::new)?;
            if !C::raw_on_curve(&p) {
                return Err(Fail::new(format!("{}: clear_h result off the curve", name)));
            }
            let mut got = C::pt_of(&p);
            if inj && !pts[d[0]].in_subgroup {
                got = c.add(&got, &pts[d[0]].p);
            }
            if got != want[d[0]] {
                return Err(Fail::with(format!("{}: clear_h(P) != [h_eff]P for P = {}", name, pts[d[0]].name), json!({"got": C::show(&got), "want": C::show(&want[d[0]])})));
            }
            if !in_sub[d[0]] {
                return Err(Fail::new(format!("reference: [h_eff]P not in the subgroup for {} (model inconsistency)", pts[d[0]].name)));
            }
            Ok(if pts[d[0]].p.is_inf() { "identity" } else if pts[d[0]].in_subgroup { "subgroup point" } else { "point outside the subgroup" })
        },
    );
    // additivity on all pairs
    let rad = [pts.len() as u64, pts.len() as u64];
    ctx.sweep(
        &format!("{}.clear_h_additive", name),
        crate::infra::space(&rad),
        |i| {
            let d = unrank(i, &rad);
            json!({"p": pts[d[0]].name, "q": pts[d[1]].name})
        },
        |i| {
            let d = unrank(i, &rad);
            let sum = c.add(&pts[d[0]].p, &pts[d[1]].p);
            let mut s = C::rep(&sum, &lams[1 % lams.len()]);
            guard(|| clear(&mut s)).map_err(Fail::new)?;
            let want_sum = c.add(&want[d[0]], &want[d[1]]);
            if C::pt_of(&s) != want_sum {
                return Err(Fail::new(format!("{}: clear_h(P+Q) != clear_h(P)+clear_h(Q)", name)));
            }
            Ok(if sum.is_inf() { "identity" } else { "pair" })
        },
    );
}

pub fn run(ctx: &Ctx) -> (&'static str, &'static str) {
    // 1. the generic chains on the exponent group: the output IS the multiplier
    ctx.sweep(
        "ZGroup.chains",
        4,
        |i| json!({"chain": (["chain_z on 1", "chain_h2_eff on 1", "chain_z on -3", "chain_h2_eff on 5"][i as usize])}),
        |i| {
            let base: i64 = [1, 1, -3, 5][i as usize];
            let b = ZGroup::from_i64(base);
            let mut out = ZGroup::zero();
            let (got, want) = if i % 2 == 0 {
                verif_chain_z(&mut out, &b);
                (out.value(), BigInt::from(base) * BigInt::from(BLS_X_ABS))
            } else {
                verif_chain_h2_eff(&mut out, &b);
                (out.value(), BigInt::from(base) * BigInt::from(rfc_h_eff_g2()))
            };
            if got != want {
                return Err(Fail::with("addition chain multiplies by the wrong integer", json!({"got": got.to_string(), "want": want.to_string()})));
            }
            Ok("exact multiplier")
        },
    );
    // the RFC literal equals 3 (x^2 - 1) h2 derived from the BLS parameter
    ctx.sweep("constants", 1, |_| json!({"check": "h_eff literals"}), |_| {
        if rfc_h_eff_g2() != params().h_eff_g2 || params().h_eff_g1 != big("d201000000010001") {
            return Err(Fail::new("reference: RFC h_eff literals differ from 3(x^2-1)h2 / 1-x (model inconsistency)"));
        }
        Ok("constants")
    });
    #[cfg(feature = "toy")]
    {
        toy_chains::<T19_4>(ctx);
        toy_chains::<T19_5>(ctx);
        toy_chains::<T7_2>(ctx);
        if !ctx.quick() {
            toy_chains::<T31_5>(ctx);
            toy_chains::<T19X2>(ctx);
        }
    }
    #[cfg(not(feature = "toy"))]
    ctx.degraded("toy-curve addition chains");
    // 2. the concrete impls on the full curve groups
    let mut rng = ctx.rng("c17.points");
    let p1 = g1_points(&mut rng, ctx.tier.pick(2, 24), ctx.tier.pick(2, 4));
    let l1 = lambdas_q1(&mut rng, 1);
    real_clear::<RG1>(ctx, p1, &l1[..ctx.tier.pick(2, 4)], &params().h_eff_g1, |p: &mut G1| p.clear_h());
    let p2 = g2_points(&mut rng, ctx.tier.pick(2, 12), ctx.tier.pick(2, 5));
    let l2 = lambdas_q2(&mut rng, 1);
    real_clear::<RG2>(ctx, p2, &l2[..ctx.tier.pick(2, 4)], &params().h_eff_g2, |p: &mut G2| p.clear_h());
    ctx.assume("the exponent-group run decides the multiplier of the generic chains for every group satisfying C01; the concrete G1/G2 impls are additionally compared with big-integer [h_eff]P on full-curve points");
    (
        "exploration",
        "generic addition chains run on the exponent group (integers under +) must return exactly 0xd201000000010000 and the 636-bit 3(x^2-1)h2 (= RFC literal); the same chains on every point of the toy curves against the Cayley table; concrete clear_h of G1/G2 on full-curve alphabets (subgroup, order-3, small prime orders, l*r, full order, identity; 2-4 representatives) against big-integer [h_eff]P, subgroup membership of the result, additivity on all pairs; non-trivial = non-identity point",
    )
}
