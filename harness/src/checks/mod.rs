use crate::infra::Ctx;
pub mod c08;

/// returns (level, rule text) of the check that ran
pub fn run(ctx: &Ctx) -> Option<(&'static str, &'static str)> {
    match ctx.id.as_str() {
        "C08" => Some(c08::run(ctx)),
        _ => None,
    }
}
