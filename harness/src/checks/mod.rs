use crate::infra::Ctx;
pub mod c01;
pub mod c01real;
pub mod c02;
pub mod c03;
pub mod c04;
pub mod c06;
pub mod c07;
pub mod c08;
pub mod c09;
pub mod c10;
pub mod c12;
pub mod c13;
pub mod c14;
pub mod c15;
pub mod c16;
pub mod c17;
pub mod c18;
pub mod c19;
pub mod c20;

/// returns (level, rule text) of the check that ran
pub fn run(ctx: &Ctx) -> Option<(&'static str, &'static str)> {
    match ctx.id.as_str() {
        "C01" => Some(c01::run(ctx)),
        "C02" => Some(c02::run(ctx)),
        "C03" => Some(c03::run_c03(ctx)),
        "C11" => Some(c03::run_c11(ctx)),
        "C04" => Some(c04::run_c04(ctx)),
        "C05" => Some(c04::run_c05(ctx)),
        "C06" => Some(c06::run(ctx)),
        "C07" => Some(c07::run(ctx)),
        "C08" => Some(c08::run(ctx)),
        "C09" => Some(c09::run(ctx)),
        "C10" => Some(c10::run(ctx)),
        "C12" => Some(c12::run(ctx)),
        "C13" => Some(c13::run(ctx)),
        "C14" => Some(c14::run(ctx)),
        "C15" => Some(c15::run(ctx)),
        "C16" => Some(c16::run(ctx)),
        "C17" => Some(c17::run(ctx)),
        "C18" => Some(c18::run(ctx)),
        "C19" => Some(c19::run(ctx)),
        "C20" => Some(c20::run(ctx)),
        _ => None,
    }
}
