//! C16 — the isogeny maps are the RFC 11- and 3-isogenies and respect the group law.
use crate::alpha;
use crate::h2cref::*;
use crate::conv::*;
use crate::infra::{guard, par_map, unrank, Ctx, Fail};
use crate::points::order_l_component;
use crate::refmodel::*;
use num_bigint::BigUint;
use serde_json::json;

/// distinct affine points of the isogenous curve: x counted upward (embedded) and seeded
pub fn iso_points<S: Suite>(ctx: &Ctx, n: usize, mk: &(dyn Fn(u64) -> S::K + Sync), rand: &(dyn Fn(&mut crate::infra::SplitMix) -> S::K + Sync)) -> Vec<Pt<S::K>> {
    let c = S::iso_curve();
    let mut rng = ctx.rng(&format!("c16.{}", S::NAME));
    let mut xs: Vec<S::K> = (0..(n as u64)).map(|k| mk(k)).collect();
    for _ in 0..n {
        xs.push(rand(&mut rng));
    }
    let lifted = par_map(xs.len(), |i| S::sqrt(&c.rhs(&xs[i])).map(|y| Pt::Aff(xs[i].clone(), y)));
    let mut out: Vec<Pt<S::K>> = vec![];
    let mut seen = std::collections::HashSet::new();
    // the affine points that the isogenous curve and the target curve have in common: x^3 + A'x + B' = x^3 + b,
    // i.e. x = (b - B')/A' (a point that "already satisfies the target equation" must still be mapped)
    {
        let e = S::curve();
        let xs = e.b.sub(&c.b).mul(&c.a.inv().unwrap());
        if let Some(y) = S::sqrt(&c.rhs(&xs)) {
            let p = Pt::Aff(xs.clone(), y.clone());
            assert!(c.on_curve(&p) && e.on_curve(&p));
            seen.insert(p.clone());
            out.push(p);
            let np = c.neg(&Pt::Aff(xs, y));
            seen.insert(np.clone());
            out.push(np);
        }
    }
    for p in lifted.into_iter().flatten() {
        if seen.insert(p.clone()) {
            out.push(p);
        }
        if out.len() >= n {
            break;
        }
    }
    out
}

/// Points at which an INTERMEDIATE value of the polynomial evaluation vanishes.  The maps are evaluated by Horner's rule from
/// the leading coefficient down, so the accumulator after j steps is Z^(2j) T_j(x) with T_j the leading truncation of degree j
/// of the coefficient table; it is zero exactly at the roots of T_j.  All rational roots of all proper truncations of the four
/// tables are computed (polynomial gcd with x^N - x and equal-degree splitting) and lifted to the isogenous curve where
/// possible: the complete set of inputs on which some partial sum is zero.
pub fn horner_zero_points<S: Suite>(ctx: &Ctx, field_size: &BigUint, rand: &(dyn Fn(&mut crate::infra::SplitMix) -> S::K + Sync)) -> Vec<Pt<S::K>> {
    let tables = S::lib_iso();
    let c = S::iso_curve();
    let mut polys: Vec<Vec<S::K>> = vec![];
    for t in &tables {
        let n = t.len() - 1;
        for j in 1..n {
            polys.push(t[n - j..=n].to_vec());
        }
    }
    let seed0 = ctx.rng(&format!("c16.horner.{}", S::NAME)).next();
    let roots: Vec<Vec<S::K>> = par_map(polys.len(), |i| {
        let mut r = crate::infra::SplitMix(seed0 ^ (i as u64).wrapping_mul(0x9E3779B97F4A7C15));
        crate::polyroots::roots(&polys[i], field_size, &mut || rand(&mut r))
    });
    let mut out = vec![];
    let mut seen = std::collections::HashSet::new();
    let mut nroots = 0;
    for x in roots.into_iter().flatten() {
        nroots += 1;
        if let Some(y) = S::sqrt(&c.rhs(&x)) {
            for p in [Pt::Aff(x.clone(), y.clone()), Pt::Aff(x.clone(), y.neg())] {
                if seen.insert(p.clone()) {
                    out.push(p);
                }
            }
        }
    }
    ctx.extra(&format!("{}: rational roots of the leading truncations of the isogeny tables / points over them", S::NAME), json!([nroots, out.len()]));
    out
}

fn pts_x<F: RF>(p: &Pt<F>) -> F {
    match p {
        Pt::Aff(x, _) => x.clone(),
        Pt::Inf => F::one(),
    }
}

fn iso_checks<S: Suite>(ctx: &Ctx, pts: &[Pt<S::K>], lams: &[S::K], bound: usize, kernel: &[Pt<S::K>], expected_lens: [usize; 4], specials: &[S::K]) {
    let name = S::NAME;
    let tables = S::lib_iso();
    let e = S::curve();
    let ciso = S::iso_curve();
    ctx.require(pts.len() > bound, &format!("{}: fewer isogenous-curve points ({}) than the pole-order bound {}", name, pts.len(), bound));
    let inj = ctx.injecting("C16");
    // shape of the coefficient tables: recorded, not demanded (the property is about the map; the same map can be written with
    // other normalisations, and every table entry is exercised through the evaluations below)
    {
        let lens: Vec<usize> = tables.iter().map(|t| t.len()).collect();
        ctx.extra(&format!("{}: isogeny table lengths (RFC degree pattern {:?}) / denominators monic", name, expected_lens), json!([lens, tables[1].last() == Some(&S::K::one()) && tables[3].last() == Some(&S::K::one())]));
    }
    // every point x every representative: on the target curve, equal to the affine rational map, rep-independent
    let rad = [pts.len() as u64, lams.len() as u64];
    ctx.sweep(
        &format!("{}.iso_points", name),
        crate::infra::space(&rad),
        |i| {
            let d = unrank(i, &rad);
            json!({"point_on_iso_curve": S::show(&pts[d[0]]), "lambda": S::showk(&lams[d[1]])})
        },
        |i| {
            let d = unrank(i, &rad);
            let p = &pts[d[0]];
            let mut jp = S::rep(p, &lams[d[1]]);
            guard(|| S::lib_iso_map(&mut jp)).map_err(|m| Fail::new(format!("{}: isogeny_map panicked: {}", name, m)))?;
            let mut got = S::pt_of(&jp);
            if inj && d[1] == 1 {
                got = e.neg(&got);
            }
            if !e.on_curve(&got) {
                return Err(Fail::with(format!("{}: isogeny image is not on the target curve", name), json!(S::show(&got))));
            }
            let want = ref_iso(&tables, p);
            if got != want {
                return Err(Fail::with(format!("{}: isogeny_map differs from the affine rational map (representative lambda #{})", name, d[1]), json!({"got": S::show(&got), "want": S::show(&want)})));
            }
            Ok(if d[1] == 0 { "Z = 1" } else { "Z != 1" })
        },
    );
    // Representatives on which a raw Jacobian coordinate COINCIDES with a special constant of the map: for a point (x, y) and
    // a zero or pole c of the rational maps (root of one of the four coefficient polynomials: kernel x-coordinates among
    // them), the scalings with X = c (lambda^2 = c/x), X = c Z (lambda = c/x), X = c Z^3 (lambda = x/c).  A comparison of a
    // raw coordinate with such a constant under the wrong homogenisation fires on exactly these representatives.
    {
        let field_size = {
            // |K| from the suite: Fq for G1, Fq^2 for G2 (degree read off the x-denominator table: 10 -> G1, 2 -> G2)
            if tables[1].len() > 5 { q().clone() } else { q() * q() }
        };
        let mut consts: Vec<S::K> = vec![];
        let mut seed = crate::infra::SplitMix(0xC16C16 ^ tables[0].len() as u64);
        for t in &tables {
            let mut rnd = || {
                // field elements for the splitting step: small embedded integers times a running counter are enough
                let a = seed.next();
                S::K::from_u64(a | 1).mul(&S::K::from_u64(seed.next() | 1)).add(&pts_x(&pts[(a % pts.len() as u64) as usize]))
            };
            for r in crate::polyroots::roots(t, &field_size, &mut rnd) {
                if !r.is_zero() && !consts.contains(&r) {
                    consts.push(r);
                }
            }
        }
        let base: Vec<&Pt<S::K>> = pts.iter().filter(|p| matches!(p, Pt::Aff(x, _) if !x.is_zero())).take(6).collect();
        let mut cases: Vec<(usize, S::K, &'static str)> = vec![];
        for (bi, p) in base.iter().enumerate() {
            if let Pt::Aff(x, _) = p {
                for c in &consts {
                    let xi = x.inv().unwrap();
                    cases.push((bi, c.mul(&xi), "X = c Z"));
                    cases.push((bi, x.mul(&c.inv().unwrap()), "X = c Z^3"));
                    if let Some(l) = S::sqrt(&c.mul(&xi)) {
                        cases.push((bi, l, "X = c"));
                    }
                }
            }
        }
        ctx.extra(&format!("{}: rational zeros and poles of the isogeny maps / coincidence representatives", name), json!([consts.len(), cases.len()]));
        ctx.sweep(
            &format!("{}.iso_points.coincidence_representatives", name),
            cases.len() as u64,
            |i| json!({"point_on_iso_curve": S::show(base[cases[i as usize].0]), "lambda": S::showk(&cases[i as usize].1), "coincidence": cases[i as usize].2}),
            |i| {
                let (bi, lam, _) = &cases[i as usize];
                let p = base[*bi];
                let mut jp = S::rep(p, lam);
                guard(|| S::lib_iso_map(&mut jp)).map_err(|m| Fail::new(format!("{}: isogeny_map panicked: {}", name, m)))?;
                let got = S::pt_of(&jp);
                let want = ref_iso(&tables, p);
                if got != want {
                    return Err(Fail::with(format!("{}: isogeny_map differs from the affine rational map on a representative whose raw coordinates coincide with a special constant ({})", name, cases[i as usize].2), json!({"got": S::show(&got), "want": S::show(&want)})));
                }
                Ok("coincidence representative")
            },
        );
    }
    // points over x-values derived from the special constants by a sign or an off-by-one slip: -c, c+1, c-1 for every rational
    // zero or pole c of the maps (a kernel test written with the wrong sign convention fires at -c)
    {
        let field_size = if tables[1].len() > 5 { q().clone() } else { q() * q() };
        let mut consts: Vec<S::K> = vec![];
        let mut seed = crate::infra::SplitMix(0xC16C17 ^ tables[0].len() as u64);
        for t in &tables {
            let mut rnd = || {
                let a = seed.next();
                S::K::from_u64(a | 1).mul(&S::K::from_u64(seed.next() | 1)).add(&pts_x(&pts[(a % pts.len() as u64) as usize]))
            };
            for r in crate::polyroots::roots(t, &field_size, &mut rnd) {
                if !consts.contains(&r) {
                    consts.push(r);
                }
            }
        }
        let one = S::K::one();
        let mut near: Vec<(Pt<S::K>, &'static str)> = vec![];
        for c in &consts {
            for (x, cls) in [(c.neg(), "x = -c"), (c.add(&one), "x = c+1"), (c.sub(&one), "x = c-1")] {
                if let Some(y) = S::sqrt(&ciso.rhs(&x)) {
                    near.push((Pt::Aff(x.clone(), y.clone()), cls));
                    near.push((Pt::Aff(x, y.neg()), cls));
                }
            }
        }
        let nl = lams.len().min(4);
        let rad = [near.len() as u64, nl as u64];
        ctx.sweep(
            &format!("{}.iso_points.near_special_constants", name),
            crate::infra::space(&rad),
            |i| {
                let d = unrank(i, &rad);
                json!({"point_on_iso_curve": S::show(&near[d[0]].0), "relation_to_a_zero_or_pole_c": near[d[0]].1, "lambda": S::showk(&lams[d[1]])})
            },
            |i| {
                let d = unrank(i, &rad);
                let p = &near[d[0]].0;
                let mut jp = S::rep(p, &lams[d[1]]);
                guard(|| S::lib_iso_map(&mut jp)).map_err(|m| Fail::new(format!("{}: isogeny_map panicked: {}", name, m)))?;
                let got = S::pt_of(&jp);
                let want = ref_iso(&tables, p);
                if got != want {
                    return Err(Fail::with(format!("{}: isogeny_map differs from the affine rational map at a point with {} for a zero or pole c of the maps", name, near[d[0]].1), json!({"got": S::show(&got), "want": S::show(&want)})));
                }
                Ok(near[d[0]].1)
            },
        );
    }
    // PRESCRIBED OPERANDS of the Horner evaluation.  The evaluation adds, step by step, the terms k_j Z^(2j) to acc * X.  For a
    // special value T (in-memory residue with saturated limbs / limbs equal to the limbs of q) the representative with
    // Z^(2j) = T / k_j (Z by repeated square roots, j a power of two) makes that TERM equal to T, and the representative with
    // X = T / k_lead makes the first PRODUCT equal to T, in each of the four maps.  An addition or multiplication written on
    // the raw limbs (lazy reduction, hand-rolled carry chain) goes wrong on such operands only.
    {
        let base: Vec<&Pt<S::K>> = pts.iter().filter(|p| matches!(p, Pt::Aff(x, _) if !x.is_zero())).take(ctx.tier.pick(2, 4)).collect();
        let want_per_slot = ctx.tier.pick(6usize, 40);
        let mut cases: Vec<(usize, S::K, String)> = vec![];
        for (ti, t) in tables.iter().enumerate() {
            let clen = t.len() - 1;
            // terms: tmp[jdx] = t[clen-1-jdx] * Z^(2(jdx+1)); jdx+1 = 1, 2, 4, 8
            for lg in 0..4usize {
                let jdx = (1usize << lg) - 1;
                if jdx >= clen || t[clen - 1 - jdx].is_zero() {
                    continue;
                }
                let kinv = t[clen - 1 - jdx].inv().unwrap();
                let mut found = 0;
                for tv in specials {
                    if found >= want_per_slot {
                        break;
                    }
                    // Z^(2^(lg+1)) = T / k: lg+1 successive square roots
                    let mut z = Some(tv.mul(&kinv));
                    for _ in 0..=lg {
                        z = z.and_then(|v| S::sqrt(&v));
                    }
                    if let Some(z) = z {
                        if z.is_zero() {
                            continue;
                        }
                        found += 1;
                        cases.push((found % base.len(), z, format!("map {} term {} (coefficient x Z^{}) = special value", ti, jdx, 2 * (jdx + 1))));
                    }
                }
            }
            // first product: lead * X with X = x lambda^2
            let lead_inv = t[clen].inv().unwrap();
            let mut found = 0;
            for tv in specials {
                if found >= want_per_slot {
                    break;
                }
                let bi = found % base.len();
                if let Pt::Aff(x, _) = base[bi] {
                    if let Some(l) = S::sqrt(&tv.mul(&lead_inv).mul(&x.inv().unwrap())) {
                        if l.is_zero() {
                            continue;
                        }
                        found += 1;
                        cases.push((bi, l, format!("map {} first product (leading coefficient x X) = special value", ti)));
                    }
                }
            }
        }
        ctx.require(cases.len() >= 8, &format!("{}: too few representatives with prescribed Horner operands", name));
        ctx.sweep(
            &format!("{}.iso_points.prescribed_horner_operands", name),
            cases.len() as u64,
            |i| json!({"point_on_iso_curve": S::show(base[cases[i as usize].0]), "lambda": S::showk(&cases[i as usize].1), "operand": cases[i as usize].2}),
            |i| {
                let (bi, lam, cls) = &cases[i as usize];
                let p = base[*bi];
                let mut jp = S::rep(p, lam);
                guard(|| S::lib_iso_map(&mut jp)).map_err(|m| Fail::new(format!("{}: isogeny_map panicked: {}", name, m)))?;
                let got = S::pt_of(&jp);
                let want = ref_iso(&tables, p);
                if got != want {
                    return Err(Fail::with(format!("{}: isogeny_map differs from the affine rational map on a representative with a prescribed operand of the evaluation ({})", name, cls), json!({"got": S::show(&got), "want": S::show(&want)})));
                }
                Ok("prescribed Horner operand")
            },
        );
    }
    // the representatives that the SSWU map itself EMITS (raw, as emitted - in the exceptional case that is one particular triple
    // with Z = xi A'): isogeny_map on them equals the affine rational map of the point they denote
    {
        let mut us: Vec<S::K> = vec![S::K::zero(), S::K::one(), S::K::one().neg(), S::K::from_u64(2)];
        if let Some(e) = S::z().inv().and_then(|zi| S::sqrt(&zi.neg())) {
            us.push(e.neg());
            us.push(e);
        }
        for p in pts.iter().take(ctx.tier.pick(6, 24)) {
            us.push(pts_x(p));
        }
        ctx.sweep(
            &format!("{}.iso_points.sswu_emitted_representatives", name),
            us.len() as u64,
            |i| json!({"u": S::showk(&us[i as usize])}),
            |i| {
                let u = &us[i as usize];
                let mut jp = guard(|| S::lib_sswu(u)).map_err(|m| Fail::new(format!("{}: osswu_map panicked: {}", name, m)))?;
                let p = S::pt_of(&jp);
                guard(|| S::lib_iso_map(&mut jp)).map_err(|m| Fail::new(format!("{}: isogeny_map panicked: {}", name, m)))?;
                let got = S::pt_of(&jp);
                let want = ref_iso(&tables, &p);
                if got != want {
                    return Err(Fail::with(format!("{}: isogeny_map differs from the affine rational map on the representative that osswu_map emits", name), json!({"got": S::show(&got), "want": S::show(&want)})));
                }
                Ok(if i < 1 || (4..6).contains(&i) { "SSWU output for an exceptional or special u" } else { "SSWU output" })
            },
        );
    }
    // identity encodings and kernel points map to the identity
    let zero = S::K::zero();
    let mut ids: Vec<(String, S::Proj)> = vec![("(0,1,0)".into(), S::raw(&zero, &S::K::one(), &zero)), ("(0,0,0)".into(), S::raw(&zero, &zero, &zero))];
    if let Pt::Aff(x, y) = &pts[0] {
        ids.push(("(x,y,0)".into(), S::raw(x, y, &zero)));
    }
    for (k, kp) in kernel.iter().enumerate() {
        for (li, l) in lams.iter().enumerate().take(3) {
            ids.push((format!("kernel point #{} lambda #{}", k, li), S::rep(kp, l)));
        }
    }
    ctx.sweep(
        &format!("{}.iso_identity_and_kernel", name),
        ids.len() as u64,
        |i| json!({"input": ids[i as usize].0}),
        |i| {
            let mut jp = ids[i as usize].1;
            guard(|| S::lib_iso_map(&mut jp)).map_err(|m| Fail::new(format!("{}: isogeny_map panicked: {}", name, m)))?;
            if !S::pt_of(&jp).is_inf() {
                return Err(Fail::new(format!("{}: isogeny_map({}) is not the identity", name, ids[i as usize].0)));
            }
            Ok(if ids[i as usize].0.starts_with("kernel") { "kernel point" } else { "identity encoding" })
        },
    );
    // homomorphism on all pairs of a sub-alphabet (sum on the isogenous curve by the reference law with a != 0)
    let m = ctx.tier.pick(16usize, 64).min(pts.len());
    let mut subp: Vec<Pt<S::K>> = pts.iter().take(m - 2).cloned().collect();
    subp.push(ciso.neg(&pts[0]));
    subp.push(Pt::Inf);
    for kp in kernel.iter().take(2) {
        subp.push(kp.clone());
    }
    let rad = [subp.len() as u64, subp.len() as u64];
    ctx.sweep(
        &format!("{}.iso_homomorphism", name),
        crate::infra::space(&rad),
        |i| {
            let d = unrank(i, &rad);
            json!({"p": S::show(&subp[d[0]]), "q": S::show(&subp[d[1]])})
        },
        |i| {
            let d = unrank(i, &rad);
            let (p, q) = (&subp[d[0]], &subp[d[1]]);
            let sum = ciso.add(p, q);
            assert!(ciso.on_curve(&sum));
            let img = |x: &Pt<S::K>, l: &S::K| -> Result<Pt<S::K>, Fail> {
                let mut j = S::rep(x, l);
                guard(|| S::lib_iso_map(&mut j)).map_err(Fail::new)?;
                Ok(S::pt_of(&j))
            };
            let lhs = img(&sum, &lams[1 % lams.len()])?;
            let rhs = e.add(&img(p, &lams[0])?, &img(q, &lams[2 % lams.len()])?);
            if lhs != rhs {
                return Err(Fail::new(format!("{}: iso(P+Q) != iso(P)+iso(Q)", name)));
            }
            Ok(if p == q { "P = Q" } else if sum.is_inf() { "P = -Q" } else { "generic pair" })
        },
    );
}

/// rational kernel points of the 11-isogeny on E1'(Fq): points of order 11 whose x is a root of the x-denominator
pub fn g1_kernel_points(ctx: &Ctx) -> Vec<Pt<Q1>> {
    let c = e1_iso();
    let tables = RG1::lib_iso();
    let group_order = &params().h1 * r(); // isogenous curves have the same number of points
    let mut found: Vec<Pt<Q1>> = vec![];
    // collect order-11 points from a few curve points
    let seeds: Vec<u64> = (1..=ctx.tier.pick(8u64, 24)).collect();
    let cands: Vec<Option<Pt<Q1>>> = par_map(seeds.len(), |i| {
        let mut k = seeds[i] * 1000;
        loop {
            let x = Q1::from_u64(k);
            if let Some(y) = c.rhs(&x).sqrt() {
                return order_l_component(&c, &Pt::Aff(x, y), &group_order, 11);
            }
            k += 1;
        }
    });
    let t11: Vec<Pt<Q1>> = cands.into_iter().flatten().collect();
    // all points of the subgroups they generate: the 11-torsion is at most Z11 x Z11, so sums of two independent
    // generators reach every subgroup
    let mut pool: Vec<Pt<Q1>> = vec![];
    for p in &t11 {
        pool.push(p.clone());
    }
    if t11.len() >= 2 {
        for j in 0..11u32 {
            let s = c.add(&t11[1], &c.mul(&t11[0], &BigUint::from(j)));
            pool.push(s);
        }
    }
    for p in pool {
        if let Pt::Aff(x, _) = &p {
            if poly_eval(&tables[1], x).is_zero() {
                for j in 1..=10u32 {
                    let m = c.mul(&p, &BigUint::from(j));
                    if !found.contains(&m) {
                        found.push(m);
                    }
                }
                break;
            }
        }
    }
    found
}

pub fn run(ctx: &Ctx) -> (&'static str, &'static str) {
    let q = q();
    let mut rng = ctx.rng("c16.lams");
    let mut l1 = vec![Q1::one(), Q1::from_u64(2), Q1::one().neg(), Q1::from_u64(3)];
    let mut l2 = vec![Q2::one(), q2u(2, 0), q2u(0, 1), q2u(1, 1).neg()];
    for _ in 0..ctx.tier.pick(1, 8) {
        l1.push(Q1::new(alpha::rand_below(&mut rng, q)));
        l2.push(Q2::new(vec![Q1::new(alpha::rand_below(&mut rng, q)), Q1::new(alpha::rand_below(&mut rng, q))]));
    }
    let p1 = iso_points::<RG1>(ctx, ctx.tier.pick(320, 2000), &|k| Q1::from_u64(k), &|r| Q1::new(alpha::rand_below(r, q)));
    let hz1 = horner_zero_points::<RG1>(ctx, q, &|r| Q1::new(alpha::rand_below(r, q)));
    ctx.require(!hz1.is_empty(), "G1: no point with a vanishing partial sum found (27 x-values exist)");
    let p1: Vec<Pt<Q1>> = p1.iter().take(2).cloned().chain(hz1.into_iter()).chain(p1.iter().skip(2).cloned()).collect();
    let k1 = g1_kernel_points(ctx);
    ctx.extra("G1 rational kernel points found", json!(k1.len()));
    // special values for the prescribed-operand representatives: limb-pattern residues (low limbs saturated first)
    let sp1: Vec<Q1> = alpha::values_of_residues(q, 6, &alpha::limb_pattern_residues(q, 6, ctx.tier.pick(2, 3), false)).into_iter().filter(|v| !alpha::is_zero(v)).map(Q1::new).collect();
    let sp2: Vec<Q2> = (0..sp1.len()).map(|i| Q2::new(vec![sp1[i].clone(), sp1[(i * 7 + 3) % sp1.len()].clone()])).collect();
    iso_checks::<RG1>(ctx, &p1, &l1, 306, &k1, [12, 11, 16, 16], &sp1);
    let p2 = iso_points::<RG2>(ctx, ctx.tier.pick(80, 1000), &|k| q2u(k, 1), &|r| Q2::new(vec![Q1::new(alpha::rand_below(r, q)), Q1::new(alpha::rand_below(r, q))]));
    let hz2 = horner_zero_points::<RG2>(ctx, &(q * q), &|r| Q2::new(vec![Q1::new(alpha::rand_below(r, q)), Q1::new(alpha::rand_below(r, q))]));
    let p2: Vec<Pt<Q2>> = p2.iter().take(2).cloned().chain(hz2.into_iter()).chain(p2.iter().skip(2).cloned()).collect();
    ctx.note("G2: #E2'(Fq2) = h2*r is not divisible by 3, so the 3-isogeny has no rational kernel points; only identity encodings are checked there");
    iso_checks::<RG2>(ctx, &p2, &l2, 66, &[], [4, 3, 4, 4], &sp2);
    ctx.assume("degree bound: Y^2 - X^3 - b Z^6 composed with the table-defined map has pole order <= 306 (G1) / 66 (G2) at infinity on E'; vanishing on more distinct points proves the image lies on E for every point, and a morphism fixing O is a homomorphism");
    ctx.assume("that the coefficient values are RFC appendix E's rather than another isogeny of the same degree between the same curves rests on the RFC Appendix J vectors (checked in C06/C14) and the repository's own pinned vectors");
    (
        "exploration",
        "distinct affine points of the isogenous curves found by the reference model (x counted upward and seeded; more than the pole-order bound 306 / 66; plus every rational point over a root of a proper leading truncation of a coefficient table, i.e. every input at which a partial sum of the Horner evaluation vanishes), each under 5-12 Jacobian scalings: image on the target curve, equal to the affine evaluation of the rational maps with the library's coefficient tables on big integers, representation-independent; identity encodings (X,Y,0) and the rational kernel points of the 11-isogeny (found as order-11 points whose x is a root of the x-denominator) map to the identity; homomorphism law on all pairs of a 16-32 point sub-alphabet including P=Q, P=-Q, kernel points and the identity, with the sum computed on the isogenous curve (a != 0) by the reference law",
    )
}
