//! C06 — hash_to_curve / encode_to_curve implement the RFC 9380 BLS12-381 suites.
use crate::checks::c13::{dst_lengths, fill, msg_lengths, rfc_dst, EXPANDERS};
use crate::conv::*;
use crate::h2cref::*;
use crate::infra::{guard, unrank, Ctx, Fail};
use crate::refmodel::rfc::{hash_to_field_ints, Expander};
use crate::refmodel::*;
use pairing_plus::bls12_381::{G1, G2};
use pairing_plus::hash_to_curve::HashToCurve;
use pairing_plus::hash_to_field::{ExpandMsgXmd, ExpandMsgXof};
use serde_json::json;

fn lib_hash_g1(h: Expander, ro: bool, msg: &[u8], dst: &[u8]) -> G1 {
    macro_rules! go {
        ($x:ty) => {
            if ro {
                <G1 as HashToCurve<$x>>::hash_to_curve(msg, dst)
            } else {
                <G1 as HashToCurve<$x>>::encode_to_curve(msg, dst)
            }
        };
    }
    match h {
        Expander::XmdSha256 => go!(ExpandMsgXmd<sha2::Sha256>),
        Expander::XmdSha512 => go!(ExpandMsgXmd<sha2::Sha512>),
        Expander::XofShake128 => go!(ExpandMsgXof<sha3::Shake128>),
        Expander::XofShake256 => go!(ExpandMsgXof<sha3::Shake256>),
    }
}
fn lib_hash_g2(h: Expander, ro: bool, msg: &[u8], dst: &[u8]) -> G2 {
    macro_rules! go {
        ($x:ty) => {
            if ro {
                <G2 as HashToCurve<$x>>::hash_to_curve(msg, dst)
            } else {
                <G2 as HashToCurve<$x>>::encode_to_curve(msg, dst)
            }
        };
    }
    match h {
        Expander::XmdSha256 => go!(ExpandMsgXmd<sha2::Sha256>),
        Expander::XmdSha512 => go!(ExpandMsgXmd<sha2::Sha512>),
        Expander::XofShake128 => go!(ExpandMsgXof<sha3::Shake128>),
        Expander::XofShake256 => go!(ExpandMsgXof<sha3::Shake256>),
    }
}

pub trait HSuite: Suite {
    fn lib_hash(h: Expander, ro: bool, msg: &[u8], dst: &[u8]) -> Self::Proj;
    /// reference hash_to_field for this suite's field
    fn ref_field(h: Expander, msg: &[u8], dst: &[u8], count: usize) -> Vec<Self::K>;
}
impl HSuite for RG1 {
    fn lib_hash(h: Expander, ro: bool, msg: &[u8], dst: &[u8]) -> G1 {
        lib_hash_g1(h, ro, msg, dst)
    }
    fn ref_field(h: Expander, msg: &[u8], dst: &[u8], count: usize) -> Vec<Q1> {
        hash_to_field_ints(h, msg, dst, count, 1, 64, q()).expect("ref h2f").into_iter().map(Q1::new).collect()
    }
}
impl HSuite for RG2 {
    fn lib_hash(h: Expander, ro: bool, msg: &[u8], dst: &[u8]) -> G2 {
        lib_hash_g2(h, ro, msg, dst)
    }
    fn ref_field(h: Expander, msg: &[u8], dst: &[u8], count: usize) -> Vec<Q2> {
        let v = hash_to_field_ints(h, msg, dst, count, 2, 64, q()).expect("ref h2f");
        v.chunks(2).map(|c| q2(&c[0], &c[1])).collect()
    }
}

fn suite_checks<S: HSuite>(ctx: &Ctx, ml: &[usize], dl: &[usize], full_every: u64) {
    let name = S::NAME;
    let tables = S::lib_iso();
    let e = S::curve();
    let inj = ctx.injecting("C06");
    let rad = [ml.len() as u64, 2, dl.len() as u64, 3, 2, 4];
    ctx.sweep(
        &format!("{}.hash", name),
        crate::infra::space(&rad),
        |i| {
            let d = unrank(i, &rad);
            json!({"group": name, "mode": if d[4] == 0 {"RO (hash_to_curve)"} else {"NU (encode_to_curve)"}, "expander": format!("{:?}", EXPANDERS[d[5]]), "msg_len": ml[d[0]], "msg_fill": d[1], "dst_len": dl[d[2]], "dst_fill": d[3]})
        },
        |i| {
            let d = unrank(i, &rad);
            let h = EXPANDERS[d[5]];
            let ro = d[4] == 0;
            let msg = fill(ml[d[0]], d[1]);
            let dst = rfc_dst(dl[d[2]], d[3]);
            let got = guard(|| S::lib_hash(h, ro, &msg, &dst)).map_err(|m| Fail::new(format!("{}: hashing panicked: {}", name, m)))?;
            let again = S::lib_hash(h, ro, &msg, &dst);
            if S::raw_of(&got) != S::raw_of(&again) {
                return Err(Fail::new(format!("{}: two evaluations on the same (msg, dst) differ", name)));
            }
            let us = S::ref_field(h, &msg, &dst, if ro { 2 } else { 1 });
            // reference: sswu, isogeny, addition on the target curve
            let mut acc = Pt::Inf;
            for u in &us {
                let (p, _) = S::ref_sswu(u);
                acc = e.add(&acc, &ref_iso(&tables, &p));
            }
            let full = i % full_every == 0;
            let want = if full {
                e.mul(&acc, &S::h_eff())
            } else {
                // cofactor clearing through the library stage (established on the whole curve by C17)
                let mut j = S::rep(&acc, &S::K::from_u64(5));
                S::lib_clear_h(&mut j);
                S::pt_of(&j)
            };
            let mut gp = S::pt_of(&got);
            if inj && ml[d[0]] == 64 && d[1] == 1 {
                gp = e.neg(&gp);
            }
            if !S::raw_on_curve(&got) || gp != want {
                return Err(Fail::with(format!("{}: result differs from the RFC 9380 suite definition", name), json!({"got": S::show(&gp), "want": S::show(&want)})));
            }
            if full && !e.mul(&gp, r()).is_inf() {
                return Err(Fail::new(format!("{}: hash output is not in the order-r subgroup", name)));
            }
            Ok(if full { "full big-integer reference incl. [h_eff] and subgroup test" } else if ro { "random-oracle mode" } else { "non-uniform mode" })
        },
    );
}

/// dense (message length, tag length) coverage: the byte handling in front of the map (buffers, padding, length bytes) is
/// exercised at EVERY message length up to a bound for several tag lengths (thorough: the full grid with every tag length
/// 0..=255). Expected value: the library's own map/map2 stage (tied to the RFC composition by C14) applied to the reference
/// hash_to_field output - cheap enough for tens of thousands of cases.
fn length_grid<S: HSuite>(ctx: &Ctx) {
    let name = S::NAME;
    let mut cases: Vec<(usize, usize)> = vec![];
    if ctx.quick() {
        for &d in &[0usize, 43, 50, 255] {
            for m in 0..=200 {
                cases.push((m, d));
            }
        }
    } else {
        for d in 0..=255usize {
            for m in 0..=260 {
                cases.push((m, d));
            }
        }
    }
    // long messages (chunked absorption, length arithmetic in 16 or 32 bits)
    for &m in &[65535usize, 65536, 65537, 131073, 200_000, (1 << 20) + 1] {
        cases.push((m, 43));
    }
    // variants: quick = both modes x both XMD hashes + RO x both XOFs ; thorough = everything
    let variants: Vec<(bool, Expander)> = if ctx.quick() {
        vec![(true, EXPANDERS[0]), (false, EXPANDERS[0]), (true, EXPANDERS[1]), (false, EXPANDERS[1]), (true, EXPANDERS[2]), (true, EXPANDERS[3])]
    } else {
        (0..8).map(|v| (v & 1 == 0, EXPANDERS[v >> 1])).collect()
    };
    let rad = [cases.len() as u64, variants.len() as u64];
    ctx.sweep(
        &format!("{}.length_grid", name),
        crate::infra::space(&rad),
        |i| {
            let d = unrank(i, &rad);
            let (ro, h) = variants[d[1]];
            json!({"group": name, "mode": if ro {"RO (hash_to_curve)"} else {"NU (encode_to_curve)"}, "expander": format!("{:?}", h), "msg_len": cases[d[0]].0, "dst_len": cases[d[0]].1})
        },
        |i| {
            let d = unrank(i, &rad);
            let (ro, h) = variants[d[1]];
            let (m, dlen) = cases[d[0]];
            let msg = fill(m, 0);
            let dst = rfc_dst(dlen, 0);
            let got = guard(|| S::lib_hash(h, ro, &msg, &dst)).map_err(|e| Fail::new(format!("{}: hashing panicked: {}", name, e)))?;
            let us = S::ref_field(h, &msg, &dst, if ro { 2 } else { 1 });
            let want = if ro { S::lib_map2(&us[0], &us[1]) } else { S::lib_map(&us[0]) };
            if !S::raw_on_curve(&got) || S::pt_of(&got) != S::pt_of(&want) {
                return Err(Fail::new(format!("{}: hash differs from map(hash_to_field(msg, tag)) with hash_to_field per RFC 9380 section 5.2", name)));
            }
            Ok(if ro { "random-oracle mode" } else { "non-uniform mode" })
        },
    );
}

fn suite_interleaving(ctx: &Ctx) {
    let inputs: Vec<(Vec<u8>, Vec<u8>)> = vec![(b"".to_vec(), b"QUUX-V01-CS02-with-suite".to_vec()), (fill(65, 0), rfc_dst(43, 0)), (fill(3, 1), rfc_dst(255, 0))];
    // variant = (group, mode, expander)
    let variants: Vec<(usize, bool, Expander)> = (0..16).map(|v| (v & 1, (v >> 1) & 1 == 0, EXPANDERS[v >> 2])).collect();
    // expected affine outputs from the reference pipeline (cofactor clearing through the library stage, see above)
    let expect1 = |ro: bool, h: Expander, msg: &[u8], dst: &[u8]| -> Pt<Q1> {
        let tables = RG1::lib_iso();
        let us = RG1::ref_field(h, msg, dst, if ro { 2 } else { 1 });
        let mut acc = Pt::Inf;
        for u in &us {
            acc = e1().add(&acc, &ref_iso(&tables, &RG1::ref_sswu(u).0));
        }
        let mut j = RG1::rep(&acc, &Q1::from_u64(5));
        RG1::lib_clear_h(&mut j);
        RG1::pt_of(&j)
    };
    let expect2 = |ro: bool, h: Expander, msg: &[u8], dst: &[u8]| -> Pt<Q2> {
        let tables = RG2::lib_iso();
        let us = RG2::ref_field(h, msg, dst, if ro { 2 } else { 1 });
        let mut acc = Pt::Inf;
        for u in &us {
            acc = e2().add(&acc, &ref_iso(&tables, &RG2::ref_sswu(u).0));
        }
        let mut j = RG2::rep(&acc, &Q2::from_u64(5));
        RG2::lib_clear_h(&mut j);
        RG2::pt_of(&j)
    };
    ctx.sweep(
        "suite_interleaving",
        inputs.len() as u64,
        |i| json!({"msg_len": inputs[i as usize].0.len(), "dst_len": inputs[i as usize].1.len(), "ordered_pairs_of_suites": 256}),
        |i| {
            let (msg, dst) = inputs[i as usize].clone();
            let want1: Vec<Option<Pt<Q1>>> = variants.iter().map(|(g, ro, h)| if *g == 0 { Some(expect1(*ro, *h, &msg, &dst)) } else { None }).collect();
            let want2: Vec<Option<Pt<Q2>>> = variants.iter().map(|(g, ro, h)| if *g == 1 { Some(expect2(*ro, *h, &msg, &dst)) } else { None }).collect();
            let variants2 = variants.clone();
            // a fresh thread: thread-local state starts empty; process-global state is shared with the rest of the run
            let res: Result<(), String> = std::thread::spawn(move || {
                for a in 0..16 {
                    for b in 0..16 {
                        for &v in &[a, b] {
                            let (g, ro, h) = variants2[v];
                            if g == 0 {
                                let p = lib_hash_g1(h, ro, &msg, &dst);
                                if Some(pt_of_g1(&p)) != want1[v] {
                                    return Err(format!("G1 {:?} {} after suite variant #{} on the same (msg, tag)", h, if ro { "RO" } else { "NU" }, a));
                                }
                            } else {
                                let p = lib_hash_g2(h, ro, &msg, &dst);
                                if Some(pt_of_g2(&p)) != want2[v] {
                                    return Err(format!("G2 {:?} {} after suite variant #{} on the same (msg, tag)", h, if ro { "RO" } else { "NU" }, a));
                                }
                            }
                        }
                    }
                }
                Ok(())
            })
            .join()
            .map_err(|_| Fail::new("hashing panicked in the interleaving run"))?;
            crate::infra::bump(511);
            res.map_err(|e| Fail::new(format!("hash result depends on the calls made before it: {}", e)))?;
            Ok("interleaved suites")
        },
    );
}

struct Vector {
    suite: &'static str,
    msg: &'static [u8],
    x: Vec<&'static str>,
    y: Vec<&'static str>,
}

pub fn run(ctx: &Ctx) -> (&'static str, &'static str) {
    let quick = ctx.quick();
    let ml: Vec<usize> = if quick { vec![0, 1, 32, 55, 56, 64, 65, 128, 136, 137, 168] } else { msg_lengths(false) };
    let dl: Vec<usize> = if quick { vec![0, 16, 43, 255] } else { dst_lengths(false) };
    suite_checks::<RG1>(ctx, &ml, &dl, ctx.tier.pick(7, 3));
    suite_checks::<RG2>(ctx, &ml, &dl, ctx.tier.pick(61, 17));
    // "depends only on (message, tag)": every ordered pair of the 16 suite variants evaluated back to back on the
    // SAME message and tag in one fresh thread (a cache keyed too coarsely would hand the first result to the second)
    suite_interleaving(ctx);
    length_grid::<RG1>(ctx);
    length_grid::<RG2>(ctx);
    // RFC 9380 Appendix J vectors (transcribed): J.9.1 (G1 RO), J.10.1 (G2 RO)
    let vectors = vec![
        Vector {
            suite: "BLS12381G1_XMD:SHA-256_SSWU_RO_",
            msg: b"",
            x: vec!["052926add2207b76ca4fa57a8734416c8dc95e24501772c814278700eed6d1e4e8cf62d9c09db0fac349612b759e79a1"],
            y: vec!["08ba738453bfed09cb546dbb0783dbb3a5f1f566ed67bb6be0e8c67e2e81a4cc68ee29813bb7994998f3eae0c9c6a265"],
        },
        Vector {
            suite: "BLS12381G1_XMD:SHA-256_SSWU_RO_",
            msg: b"abc",
            x: vec!["03567bc5ef9c690c2ab2ecdf6a96ef1c139cc0b2f284dca0a9a7943388a49a3aee664ba5379a7655d3c68900be2f6903"],
            y: vec!["0b9c15f3fe6e5cf4211f346271d7b01c8f3b28be689c8429c85b67af215533311f0b8dfaaa154fa6b88176c229f2885d"],
        },
        Vector {
            suite: "BLS12381G2_XMD:SHA-256_SSWU_RO_",
            msg: b"",
            x: vec![
                "0141ebfbdca40eb85b87142e130ab689c673cf60f1a3e98d69335266f30d9b8d4ac44c1038e9dcdd5393faf5c41fb78a",
                "05cb8437535e20ecffaef7752baddf98034139c38452458baeefab379ba13dff5bf5dd71b72418717047f5b0f37da03d",
            ],
            y: vec![
                "0503921d7f6a12805e72940b963c0cf3471c7b2a524950ca195d11062ee75ec076daf2d4bc358c4b190c0c98064fdd92",
                "12424ac32561493f3fe3c260708a12b7c620e7be00099a974e259ddc7d1f6395c3c811cdd19f1e8dbf3e9ecfdcbab8d6",
            ],
        },
    ];
    ctx.sweep(
        "rfc_appendix_j_vectors",
        vectors.len() as u64,
        |i| json!({"suite": vectors[i as usize].suite, "msg": String::from_utf8_lossy(vectors[i as usize].msg)}),
        |i| {
            let v = &vectors[i as usize];
            let dst = format!("QUUX-V01-CS02-with-{}", v.suite);
            if v.x.len() == 1 {
                let p = lib_hash_g1(Expander::XmdSha256, true, v.msg, dst.as_bytes());
                let want = Pt::Aff(Q1::new(big(v.x[0])), Q1::new(big(v.y[0])));
                if pt_of_g1(&p) != want {
                    return Err(Fail::new(format!("RFC 9380 Appendix J vector mismatch ({}, msg {:?})", v.suite, String::from_utf8_lossy(v.msg))));
                }
            } else {
                let p = lib_hash_g2(Expander::XmdSha256, true, v.msg, dst.as_bytes());
                let want = Pt::Aff(q2(&big(v.x[0]), &big(v.x[1])), q2(&big(v.y[0]), &big(v.y[1])));
                if pt_of_g2(&p) != want {
                    return Err(Fail::new(format!("RFC 9380 Appendix J vector mismatch ({}, msg {:?})", v.suite, String::from_utf8_lossy(v.msg))));
                }
            }
            Ok("RFC vector")
        },
    );
    ctx.assume("isogeny coefficients are the library tables (C16: they define a homomorphism onto the target curve); the RFC Appendix J vectors pin the normalisation among the automorphism twists");
    ctx.assume("cofactor clearing in the bulk comparison uses the library stage on the reference sum (C17); every 3rd-61st case uses a full big-integer [h_eff] multiplication and a big-integer subgroup test");
    (
        "exploration",
        "full cross product {G1,G2} x {random-oracle, non-uniform} x {XMD-SHA-256, XMD-SHA-512, XOF-SHAKE128, XOF-SHAKE256} x message lengths at every hash-block / padding / sponge-rate boundary x 2 contents x tag lengths 0..255 at boundaries x 2 contents, each call compared with the reference pipeline hash_to_field -> simplified SWU -> isogeny -> addition -> cofactor clearing on big integers; repeated evaluation; every message length 0..200 x tag lengths {0,43,50,255} (thorough: the full grid 0..260 x 0..255) and messages of 65535..2^20+1 bytes against the library map stage applied to the reference hash_to_field output; RFC 9380 Appendix J vectors; non-trivial = every call (no default class)",
    )
}
