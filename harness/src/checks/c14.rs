//! C14 — map_to_curve / map2_to_curve equal the RFC composition for all field inputs.
use crate::checks::c15::{build_g1, build_g2, TAlpha};
use crate::conv::*;
use crate::h2cref::*;
use crate::infra::{guard, par_map, Ctx, Fail};
use crate::refmodel::*;
use serde_json::json;

struct PairCase<K> {
    u0: K,
    u1: K,
    class: &'static str,
}

/// other preimages of the same SSWU x-coordinate: t'^2 = (-1 - Z t^2)/Z
fn other_preimages<S: Suite>(t: &S::K) -> Vec<S::K> {
    let z = S::z();
    let s = z.mul(&t.sq());
    let s2 = S::K::one().neg().sub(&s);
    let t2 = s2.mul(&z.inv().unwrap());
    let mut out = match S::sqrt(&t2) {
        Some(r) if !r.is_zero() => vec![r.clone(), r.neg()],
        _ => vec![],
    };
    // second family: s' = 1/s exchanges the two candidates (x1(s) = x2(1/s)), i.e. t' = +-1/(Z t); the two SSWU
    // outputs then denote the same x through DIFFERENT Jacobian representatives
    if let Some(i) = z.mul(t).inv() {
        out.push(i.clone());
        out.push(i.neg());
    }
    out
}

fn map_checks<S: Suite>(ctx: &Ctx, ta: &TAlpha<S>) {
    let name = S::NAME;
    let tables = S::lib_iso();
    let e = S::curve();
    let inj = ctx.injecting("C14");
    // expected value: cofactor clearing (library stage, verified on the whole curve by C17) applied to the
    // reference sum of the reference isogeny images of the reference SSWU points
    let expected = |us: &[S::K]| -> Result<(Pt<S::K>, Pt<S::K>), Fail> {
        let mut acc = Pt::Inf;
        for u in us {
            let (p, _) = S::ref_sswu(u);
            acc = e.add(&acc, &ref_iso(&tables, &p));
        }
        let mut j = S::rep(&acc, &S::K::from_u64(3));
        guard(|| S::lib_clear_h(&mut j)).map_err(Fail::new)?;
        Ok((S::pt_of(&j), acc))
    };
    // ---- singles
    let us = &ta.ts;
    ctx.sweep(
        &format!("{}.map_to_curve", name),
        us.len() as u64,
        |i| json!({"u": S::showk(&us[i as usize]), "sswu_class": ta.class[i as usize]}),
        |i| {
            let u = &us[i as usize];
            let got = guard(|| S::lib_map(u)).map_err(|m| Fail::new(format!("{}: map_to_curve panicked: {}", name, m)))?;
            let (want, _) = expected(&[u.clone()])?;
            if !S::raw_on_curve(&got) || S::pt_of(&got) != want {
                return Err(Fail::with(format!("{}: map_to_curve(u) != clear_cofactor(iso(sswu(u)))", name), json!({"got": S::show(&S::pt_of(&got)), "want": S::show(&want)})));
            }
            // the same composition through the library's own stages
            let mut st = S::lib_sswu(u);
            S::lib_iso_map(&mut st);
            S::lib_clear_h(&mut st);
            if S::pt_of(&st) != want {
                return Err(Fail::new(format!("{}: library stages composed by hand differ from the reference composition", name)));
            }
            Ok(if u.is_zero() { "u = 0" } else if ta.class[i as usize].starts_with("exceptional") { "exceptional u" } else { "generic u" })
        },
    );
    // ---- pairs
    let m = ctx.tier.pick(12usize, 40).min(us.len());
    let step = (us.len() / m).max(1);
    let base: Vec<S::K> = us.iter().step_by(step).take(m).cloned().collect();
    let mut cases: Vec<PairCase<S::K>> = vec![];
    for a in &base {
        for b in &base {
            if a != b && *a != b.neg() {
                cases.push(PairCase { u0: a.clone(), u1: b.clone(), class: "generic pair" });
            }
        }
    }
    // exceptional / zero members explicitly paired with everything of the base
    for (i, u) in us.iter().enumerate() {
        if u.is_zero() || ta.class[i].starts_with("exceptional") {
            for b in base.iter().take(6) {
                cases.push(PairCase { u0: u.clone(), u1: b.clone(), class: "zero / exceptional with generic" });
                cases.push(PairCase { u0: b.clone(), u1: u.clone(), class: "zero / exceptional with generic" });
            }
        }
    }
    let diag: Vec<S::K> = us.iter().take(ctx.tier.pick(40, 600)).cloned().collect();
    for u in &diag {
        cases.push(PairCase { u0: u.clone(), u1: u.clone(), class: "u0 = u1" });
        cases.push(PairCase { u0: u.clone(), u1: u.neg(), class: "u0 = -u1" });
    }
    // distinct inputs whose SSWU images coincide (same point) or are opposite
    let pre: Vec<Vec<S::K>> = par_map(us.len(), |i| if us[i].is_zero() { vec![] } else { other_preimages::<S>(&us[i]) });
    let mut n_same = 0;
    let mut n_opp = 0;
    for (u, ps) in us.iter().zip(pre.iter()) {
        for t in ps {
            if t == u || *t == u.neg() {
                continue;
            }
            let (a, _) = S::ref_sswu(u);
            let (b, _) = S::ref_sswu(t);
            if a == b {
                n_same += 1;
                cases.push(PairCase { u0: u.clone(), u1: t.clone(), class: "distinct inputs, sswu(u0) = sswu(u1)" });
            } else if a == S::iso_curve().neg(&b) {
                n_opp += 1;
                cases.push(PairCase { u0: u.clone(), u1: t.clone(), class: "distinct inputs, sswu(u0) = -sswu(u1)" });
            }
        }
    }
    // relabel every case by the actual relation of the two SSWU images (e.g. (0, exceptional root) coincide)
    let rel: Vec<u8> = par_map(cases.len(), |i| {
        let (a, _) = S::ref_sswu(&cases[i].u0);
        let (b, _) = S::ref_sswu(&cases[i].u1);
        if a == b {
            1
        } else if a == S::iso_curve().neg(&b) {
            2
        } else {
            0
        }
    });
    for (c, r) in cases.iter_mut().zip(rel) {
        if c.u0 == c.u1 {
            c.class = "u0 = u1";
        } else if c.u0 == c.u1.neg() {
            c.class = "u0 = -u1";
        } else if r == 1 {
            c.class = "distinct inputs, sswu(u0) = sswu(u1)";
        } else if r == 2 {
            c.class = "distinct inputs, sswu(u0) = -sswu(u1)";
        }
    }
    ctx.require(n_same >= 2 && n_opp >= 2, &format!("{}: too few constructed coinciding-image pairs (same {}, opposite {})", name, n_same, n_opp));
    ctx.extra(&format!("{} constructed pairs", name), json!({"same image": n_same, "opposite image": n_opp, "total pair cases": cases.len()}));
    ctx.sweep(
        &format!("{}.map2_to_curve", name),
        cases.len() as u64,
        |i| json!({"u0": S::showk(&cases[i as usize].u0), "u1": S::showk(&cases[i as usize].u1), "class": cases[i as usize].class}),
        |i| {
            let c = &cases[i as usize];
            let got = guard(|| S::lib_map2(&c.u0, &c.u1)).map_err(|m| Fail::new(format!("{}: map2_to_curve panicked [{}]: {}", name, c.class, m)))?;
            let (want, before) = expected(&[c.u0.clone(), c.u1.clone()])?;
            let mut gp = S::pt_of(&got);
            if inj && c.class == "u0 = -u1" {
                gp = S::gen();
            }
            if !S::raw_on_curve(&got) || gp != want {
                return Err(Fail::with(format!("{}: map2_to_curve(u0,u1) != clear_cofactor(iso(sswu(u0)) + iso(sswu(u1))) [{}]", name, c.class), json!({"got": S::show(&gp), "want": S::show(&want)})));
            }
            if c.class == "u0 = -u1" && !(before.is_inf() && gp.is_inf()) {
                return Err(Fail::new(format!("{}: map2_to_curve(u,-u) is not the identity", name)));
            }
            Ok(c.class)
        },
    );
    // ---- full reference end-to-end (independent cofactor multiplication) and subgroup membership on a subset
    let sel: Vec<usize> = {
        let mut v: Vec<usize> = (0..cases.len()).step_by((cases.len() / ctx.tier.pick(6, 24)).max(1)).collect();
        for (i, c) in cases.iter().enumerate() {
            if c.class.starts_with("distinct inputs") || c.class == "u0 = u1" {
                v.push(i);
                if v.len() > ctx.tier.pick(14, 60) {
                    break;
                }
            }
        }
        v
    };
    ctx.sweep(
        &format!("{}.map2_full_reference", name),
        sel.len() as u64,
        |i| json!({"u0": S::showk(&cases[sel[i as usize]].u0), "u1": S::showk(&cases[sel[i as usize]].u1), "class": cases[sel[i as usize]].class}),
        |i| {
            let c = &cases[sel[i as usize]];
            let got = guard(|| S::lib_map2(&c.u0, &c.u1)).map_err(|m| Fail::new(format!("{}: map2_to_curve panicked [{}]: {}", name, c.class, m)))?;
            let want = ref_map::<S>(&tables, &[c.u0.clone(), c.u1.clone()]);
            let gp = S::pt_of(&got);
            if gp != want {
                return Err(Fail::with(format!("{}: map2_to_curve differs from the full big-integer composition [{}]", name, c.class), json!({"got": S::show(&gp), "want": S::show(&want)})));
            }
            if !e.mul(&gp, r()).is_inf() {
                return Err(Fail::new(format!("{}: map2_to_curve result is not in the order-r subgroup [{}]", name, c.class)));
            }
            Ok(c.class)
        },
    );
}

/// All field elements u with sswu(u) = P' for a prescribed affine point P' of the isogenous curve: the two candidate branches
/// of RFC 9380 6.6.2 solved for t = Z u^2 (x1 = -B/A (1 + 1/(t^2+t)), x2 = t x1), then u = +-sqrt(t/Z); every candidate is
/// verified with the reference SSWU map (point and sign).
fn sswu_preimages<S: Suite>(target: &Pt<S::K>) -> Vec<S::K> {
    let (x0, _) = match target {
        Pt::Aff(x, y) => (x.clone(), y.clone()),
        Pt::Inf => return vec![],
    };
    let iso = S::iso_curve();
    let z = S::z();
    let one = S::K::one();
    let two_inv = S::K::from_u64(2).inv().unwrap();
    // c = -A x0 / B
    let c = iso.a.neg().mul(&x0).mul(&iso.b.inv().unwrap());
    let mut ts: Vec<S::K> = vec![];
    // branch x1: t^2 + t - d = 0 with d = 1/(c-1)
    if let Some(d) = c.sub(&one).inv() {
        let disc = one.add(&S::K::from_u64(4).mul(&d));
        if let Some(sq) = S::sqrt(&disc) {
            ts.push(sq.sub(&one).mul(&two_inv));
            ts.push(sq.neg().sub(&one).mul(&two_inv));
        }
    }
    // branch x2: t^2 + (1-c) t + (1-c) = 0
    {
        let e = one.sub(&c);
        let disc = e.sq().sub(&S::K::from_u64(4).mul(&e));
        if let Some(sq) = S::sqrt(&disc) {
            ts.push(sq.sub(&e).mul(&two_inv));
            ts.push(sq.neg().sub(&e).mul(&two_inv));
        }
    }
    let zi = z.inv().unwrap();
    let mut out = vec![];
    for t in ts {
        if let Some(u) = S::sqrt(&t.mul(&zi)) {
            for cand in [u.clone(), u.neg()] {
                if S::ref_sswu(&cand).0 == *target && !out.contains(&cand) {
                    out.push(cand);
                }
            }
        }
    }
    out
}

/// Field elements whose image BEFORE cofactor clearing is a prescribed point S of the target curve: rational preimages of S
/// under the isogeny (roots of xnum - S.x * xden; y from the y-map), then SSWU preimages of each.
fn inputs_with_image<S: Suite>(target: &Pt<S::K>, field_size: &num_bigint::BigUint, rand: &mut dyn FnMut() -> S::K) -> Vec<S::K> {
    let tables = S::lib_iso();
    let iso = S::iso_curve();
    let (sx, sy) = match target {
        Pt::Aff(x, y) => (x.clone(), y.clone()),
        Pt::Inf => return vec![],
    };
    let n = tables[0].len().max(tables[1].len());
    let f: Vec<S::K> = (0..n)
        .map(|i| {
            let a = tables[0].get(i).cloned().unwrap_or_else(S::K::zero);
            let b = tables[1].get(i).cloned().unwrap_or_else(S::K::zero);
            a.sub(&sx.mul(&b))
        })
        .collect();
    let mut out = vec![];
    for x0 in crate::polyroots::roots(&f, field_size, rand) {
        let yn = poly_eval(&tables[2], &x0);
        let yd = poly_eval(&tables[3], &x0);
        if poly_eval(&tables[1], &x0).is_zero() || yd.is_zero() {
            continue;
        }
        if let Some(yni) = yn.inv() {
            let p = Pt::Aff(x0.clone(), sy.mul(&yd).mul(&yni));
            if iso.on_curve(&p) && ref_iso(&tables, &p) == *target {
                out.extend(sswu_preimages::<S>(&p));
            }
        }
    }
    out
}

/// inputs whose pre-clearing image is special: already in the order-r subgroup (the generator, 2g, a seeded multiple), or
/// the identity (SSWU preimages of rational kernel points of the isogeny, where they exist)
fn prescribed_image_checks<S: Suite>(ctx: &Ctx, field_size: &num_bigint::BigUint, rand: &(dyn Fn(&mut crate::infra::SplitMix) -> S::K + Sync), kernel: &[Pt<S::K>], small_order: &[Pt<S::K>]) {
    let name = S::NAME;
    let e = S::curve();
    let tables = S::lib_iso();
    let g = S::gen();
    let mut rng = ctx.rng(&format!("c14.prescribed.{}", name));
    let k = crate::alpha::rand_below(&mut rng, r());
    let mut targets: Vec<(&'static str, Pt<S::K>)> = vec![("the generator", g.clone()), ("2g", e.dbl(&g)), ("-g", e.neg(&g)), ("a seeded multiple of g", e.mul(&g, &k))];
    // images of small order dividing the cofactor: [h_eff] sends them to the identity, and inside the cofactor-clearing chain an
    // intermediate multiple coincides with the input
    for p in small_order {
        targets.push(("a point of small order dividing the cofactor", p.clone()));
        targets.push(("a point of small order dividing the cofactor", e.neg(p)));
        targets.push(("a small-order point plus the generator", e.add(p, &g)));
    }
    let mut us: Vec<(S::K, &'static str)> = vec![];
    for (cls, t) in &targets {
        let mut r2 = crate::infra::SplitMix(rng.next());
        for u in inputs_with_image::<S>(t, field_size, &mut || rand(&mut r2)) {
            us.push((u, cls));
        }
    }
    for kp in kernel {
        for u in sswu_preimages::<S>(kp) {
            us.push((u, "SSWU image in the kernel of the isogeny"));
        }
    }
    ctx.extra(&format!("{}: inputs with a prescribed image before cofactor clearing (in the subgroup / identity)", name), json!(us.len()));
    if us.is_empty() {
        ctx.note(format!("{}: no rational input maps onto the prescribed points before cofactor clearing", name));
        return;
    }
    ctx.sweep(
        &format!("{}.map_to_curve.prescribed_images", name),
        us.len() as u64,
        |i| json!({"u": S::showk(&us[i as usize].0), "image_before_clearing": us[i as usize].1}),
        |i| {
            let (u, cls) = &us[i as usize];
            let got = guard(|| S::lib_map(u)).map_err(|m| Fail::new(format!("{}: map_to_curve panicked: {}", name, m)))?;
            let want = ref_map::<S>(&tables, &[u.clone()]);
            if !S::raw_on_curve(&got) || S::pt_of(&got) != want {
                return Err(Fail::with(format!("{}: map_to_curve(u) != [h_eff] iso(sswu(u)) for an input whose image before clearing is {}", name, cls), json!({"got": S::show(&S::pt_of(&got)), "want": S::show(&want)})));
            }
            Ok(*cls)
        },
    );
    // pairs among them and with a generic input
    let m = us.len().min(6);
    let generic = S::K::from_u64(5);
    let mut pairs: Vec<(S::K, S::K)> = vec![];
    for a in 0..m {
        for b in 0..m {
            pairs.push((us[a].0.clone(), us[b].0.clone()));
        }
        pairs.push((us[a].0.clone(), generic.clone()));
        pairs.push((generic.clone(), us[a].0.clone()));
    }
    ctx.sweep(
        &format!("{}.map2_to_curve.prescribed_images", name),
        pairs.len() as u64,
        |i| json!({"u0": S::showk(&pairs[i as usize].0), "u1": S::showk(&pairs[i as usize].1)}),
        |i| {
            let (u0, u1) = &pairs[i as usize];
            let got = guard(|| S::lib_map2(u0, u1)).map_err(|m| Fail::new(format!("{}: map2_to_curve panicked: {}", name, m)))?;
            let want = ref_map::<S>(&tables, &[u0.clone(), u1.clone()]);
            if !S::raw_on_curve(&got) || S::pt_of(&got) != want {
                return Err(Fail::new(format!("{}: map2_to_curve != [h_eff](iso(sswu(u0)) + iso(sswu(u1))) for inputs whose images before clearing lie in the subgroup or are the identity", name)));
            }
            Ok("prescribed images")
        },
    );
}

pub fn run(ctx: &Ctx) -> (&'static str, &'static str) {
    let t1 = build_g1(ctx, ctx.tier.pick(6, 32), ctx.tier.pick(16, 512));
    map_checks::<RG1>(ctx, &t1);
    let t2 = build_g2(ctx, ctx.tier.pick(3, 12), ctx.tier.pick(16, 256));
    map_checks::<RG2>(ctx, &t2);
    {
        let q = q();
        let k1 = crate::checks::c16::g1_kernel_points(ctx);
        let mut rng = ctx.rng("c14.small_order");
        let so1: Vec<Pt<Q1>> = crate::points::g1_points(&mut rng, 0, 1).into_iter().filter(|p| p.name.starts_with("T3=") || (p.name.starts_with("P11 ") && p.name.contains("order 11"))).map(|p| p.p).collect();
        let so2: Vec<Pt<Q2>> = crate::points::g2_points(&mut rng, 0, 2).into_iter().filter(|p| p.name.starts_with("P13 order") || p.name.starts_with("P23 order")).map(|p| p.p).collect();
        prescribed_image_checks::<RG1>(ctx, q, &|r| Q1::new(crate::alpha::rand_below(r, q)), &k1, &so1);
        prescribed_image_checks::<RG2>(ctx, &(q * q), &|r| Q2::new(vec![Q1::new(crate::alpha::rand_below(r, q)), Q1::new(crate::alpha::rand_below(r, q))]), &[], &so2);
    }
    ctx.assume("the expected value uses the library's clear_h stage on the reference sum (C17 establishes clear_h = [h_eff] on the whole curve); a subset is additionally compared with a full big-integer [h_eff] multiplication");
    ctx.assume("isogeny coefficients are read from the library tables (C16 establishes that they define a homomorphism onto the target curve; RFC vectors in C06 pin the normalisation)");
    (
        "exploration",
        "u alphabet = the C15 class-complete SSWU alphabet (zero, exceptional roots, every case-split class, seeded); singles: all of it; pairs: all ordered pairs of a 12-24 element spread, zero/exceptional members with generic ones, the diagonal (u,u) and anti-diagonal (u,-u) for 40-160 u, and constructed pairs of DISTINCT inputs with coinciding or opposite SSWU images obtained by inverting the SWU x-formula in the reference model (both families: Z t'^2 = -1 - Z t^2, where the two outputs are the same Jacobian triple, and t' = +-1/(Z t), where x1 and x2 swap and the representatives differ); a class with fewer than 2 members is a machinery failure; inputs with a PRESCRIBED image before cofactor clearing (rational preimages of g, 2g, -g, a seeded multiple, and of points of order 3, 11 (G1) / 13, 23 (G2) and their sums with g under the isogeny, then under SSWU; SSWU preimages of the rational kernel points), singly and in pairs, against the full big-integer composition; non-trivial = any pair class",
    )
}
