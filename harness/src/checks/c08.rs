//! C08 — Fq and Fr are exactly Z/q and Z/r; the representation types are unsigned 384/256-bit integers.
use crate::alpha;
use crate::conv::{big_to_limbs, limbs_to_big};
use crate::infra::{guard, unrank, Ctx, Fail};
use crate::shadow::exponent_shapes;
use crate::refmodel::{hex, q, r};
use ff::{Field, PrimeField, PrimeFieldRepr, SqrtField};
use num_bigint::BigUint;
use num_traits::{One, Zero};
use pairing_plus::bls12_381::{transmute, Fq, FqRepr, Fr, FrRepr};
use serde_json::json;
use std::cmp::Ordering;

fn repr_of<R: PrimeFieldRepr>(x: &BigUint) -> R {
    let mut r = R::default();
    let n = r.as_ref().len();
    let l = big_to_limbs(x, n);
    r.as_mut().copy_from_slice(&l);
    r
}
fn int_of<R: PrimeFieldRepr>(r: &R) -> BigUint {
    limbs_to_big(r.as_ref())
}

struct FieldCase<F: PrimeField> {
    name: &'static str,
    p: BigUint,
    limbs: usize,
    raw: fn(&BigUint) -> F,
}

fn exps(p: &BigUint, rng: &mut crate::infra::SplitMix) -> Vec<Vec<u64>> {
    let mut v: Vec<Vec<u64>> = vec![vec![], vec![0], vec![1], vec![2], vec![3], vec![0, 0], vec![0, 1], vec![u64::MAX]];
    for len in 1..=12usize {
        v.push(vec![u64::MAX; len]);
        let mut top = vec![0u64; len];
        top[len - 1] = 1 << 63;
        v.push(top);
        let mut lowtop = vec![0u64; len];
        lowtop[len - 1] = 1;
        v.push(lowtop);
        for _ in 0..2 {
            v.push((0..len).map(|_| rng.next()).collect());
        }
        // leading zero limbs
        let mut lz = vec![0u64; len];
        lz[0] = 5;
        v.push(lz);
    }
    let pl = p.bits() as usize / 64 + 1;
    v.push(big_to_limbs(&(p - 1u32), pl));
    v.push(big_to_limbs(p, pl));
    v.push(big_to_limbs(&((p - 1u32) >> 1), pl));
    v.push(big_to_limbs(&(p - 2u32), pl));
    v
}

fn field_checks<F: PrimeField + Ord>(ctx: &Ctx, fc: &FieldCase<F>) {
    let name = fc.name;
    let p = &fc.p;
    let mut rng = ctx.rng(name);
    let mut ints = alpha::field_values(p, fc.limbs, &mut rng, ctx.tier.pick(16, 420));
    {
        // values whose INTERNAL (Montgomery) form has zero / all-ones limbs or sits on a limb boundary: a = X * R^-1 mod p
        let rr = alpha::pow2(64 * fc.limbs) % p;
        let rinv = rr.modpow(&(p - 2u32), p);
        let mut raws: Vec<BigUint> = vec![];
        for l in 0..fc.limbs {
            let ones = BigUint::from(u64::MAX) << (64 * l);
            raws.push(ones.clone());
            raws.push(&ones + 1u32);
            raws.push(BigUint::from(1u32) << (64 * l));
            if l + 1 < fc.limbs {
                raws.push(&ones | (BigUint::from(u64::MAX) << (64 * (l + 1))));
            }
        }
        raws.push(alpha::pow2(64 * (fc.limbs - 1)) - 1u32);
        // limb patterns (limbs 0 / 2^64-1 / limb of p in runs; repeated and cancelling limbs)
        raws.extend(alpha::limb_pattern_residues(p, fc.limbs, ctx.tier.pick(2, 3), false));
        for x in raws {
            if &x < p {
                ints.push((x * &rinv) % p);
            }
        }
        if !ctx.quick() {
            // thorough: the whole power-of-two ladder, in external and in internal (Montgomery) form: every carry / borrow
            // position of every limb is hit by some pair of the cross product
            let bits = p.bits();
            for k in 0..bits {
                for x in [alpha::pow2(k) % p, (alpha::pow2(k) - 1u32) % p, (p - (alpha::pow2(k) % p)) % p] {
                    ints.push((&x * &rinv) % p);
                    ints.push(x);
                }
            }
        }
        ints = alpha::dedup(ints);
    }
    let els: Vec<F> = ints.iter().map(|x| F::from_repr(repr_of::<F::Repr>(x)).expect("alphabet member not reduced")).collect();
    let n = ints.len() as u64;
    ctx.require(n >= 40, "field alphabet too small");
    let inj = ctx.injecting("C08");

    // ---- binary ops
    let sub = format!("{}.binary", name);
    let rad = [5u64, n, n];
    let ops = ["add", "sub", "mul", "cmp", "eq"];
    ctx.sweep(
        &sub,
        crate::infra::space(&rad),
        |i| {
            let d = unrank(i, &rad);
            json!({"op": ops[d[0]], "a": hex(&ints[d[1]]), "b": hex(&ints[d[2]])})
        },
        |i| {
            let d = unrank(i, &rad);
            let (a, b) = (&ints[d[1]], &ints[d[2]]);
            let (fa, fb) = (els[d[1]], els[d[2]]);
            let class = if a.is_zero() || b.is_zero() { "" } else { ops[d[0]] };
            match d[0] {
                0 | 1 | 2 => {
                    let mut x = fa;
                    let want = match d[0] {
                        0 => {
                            x.add_assign(&fb);
                            (a + b) % p
                        }
                        1 => {
                            x.sub_assign(&fb);
                            (a + p - b) % p
                        }
                        _ => {
                            x.mul_assign(&fb);
                            (a * b) % p
                        }
                    };
                    let mut got = int_of(&x.into_repr());
                    if inj && d[0] == 2 && a == &(p - 1u32) && b == &(p - 1u32) {
                        got += 1u32;
                    }
                    if got != want {
                        return Err(Fail::with(format!("{} {} wrong", name, ops[d[0]]), json!({"got": hex(&got), "want": hex(&want)})));
                    }
                }
                3 => {
                    let got = fa.cmp(&fb);
                    let want = a.cmp(b);
                    if got != want || fa.partial_cmp(&fb) != Some(want) {
                        return Err(Fail::new(format!("{} cmp: got {:?} want {:?}", name, got, want)));
                    }
                }
                _ => {
                    if (fa == fb) != (a == b) {
                        return Err(Fail::new(format!("{} eq disagrees with integers", name)));
                    }
                }
            }
            Ok(class)
        },
    );

    // ---- unary ops
    let sub = format!("{}.unary", name);
    let uops = ["neg", "double", "square", "inverse", "is_zero", "repr_roundtrip", "montgomery_raw", "zero_one"];
    let rad = [uops.len() as u64, n];
    ctx.sweep(
        &sub,
        crate::infra::space(&rad),
        |i| {
            let d = unrank(i, &rad);
            json!({"op": uops[d[0]], "a": hex(&ints[d[1]])})
        },
        |i| {
            let d = unrank(i, &rad);
            let a = &ints[d[1]];
            let fa = els[d[1]];
            let class = if a.is_zero() { "" } else { uops[d[0]] };
            let cmp = |x: F, want: BigUint, what: &str| -> Result<(), Fail> {
                let got = int_of(&x.into_repr());
                if got != want {
                    Err(Fail::with(format!("{} {} wrong", name, what), json!({"got": hex(&got), "want": hex(&want)})))
                } else {
                    Ok(())
                }
            };
            match d[0] {
                0 => {
                    let mut x = fa;
                    x.negate();
                    cmp(x, (p - a) % p, "negate")?;
                }
                1 => {
                    let mut x = fa;
                    x.double();
                    cmp(x, (a * 2u32) % p, "double")?;
                }
                2 => {
                    let mut x = fa;
                    x.square();
                    cmp(x, (a * a) % p, "square")?;
                }
                3 => match fa.inverse() {
                    None => {
                        if !a.is_zero() {
                            return Err(Fail::new(format!("{} inverse failed for non-zero element", name)));
                        }
                    }
                    Some(x) => {
                        if a.is_zero() {
                            return Err(Fail::new(format!("{} inverse of zero returned a value", name)));
                        }
                        cmp(x, a.modpow(&(p - 2u32), p), "inverse")?;
                    }
                },
                4 => {
                    if fa.is_zero() != a.is_zero() {
                        return Err(Fail::new(format!("{} is_zero wrong", name)));
                    }
                }
                5 => {
                    let rep = fa.into_repr();
                    if &int_of(&rep) != a {
                        return Err(Fail::new(format!("{} into_repr is not the reduced representative", name)));
                    }
                    match F::from_repr(rep) {
                        Ok(b) if b == fa => {}
                        _ => return Err(Fail::new(format!("{} from_repr(into_repr(a)) != a", name))),
                    }
                    let via_from: F::Repr = fa.into();
                    if via_from != rep {
                        return Err(Fail::new(format!("{} Repr::from(a) != a.into_repr()", name)));
                    }
                }
                6 => {
                    // the internal form is Montgomery a*R mod p with R = 2^(64*limbs)
                    let rr = alpha::pow2(64 * fc.limbs) % p;
                    let raw = (fc.raw)(&((a * &rr) % p));
                    if raw != fa {
                        return Err(Fail::new(format!("{}: raw Montgomery form a*R mod p does not denote a", name)));
                    }
                }
                _ => {
                    if !F::zero().is_zero() || int_of(&F::one().into_repr()) != BigUint::one() || int_of(&F::char()) != *p {
                        return Err(Fail::new(format!("{} zero/one/char wrong", name)));
                    }
                    if F::NUM_BITS as usize != p.bits() || F::CAPACITY as usize != p.bits() - 1 {
                        return Err(Fail::new(format!("{} NUM_BITS/CAPACITY wrong", name)));
                    }
                }
            }
            Ok(class)
        },
    );

    // ---- pow with multi-limb exponents
    let sub = format!("{}.pow", name);
    let es = exps(p, &mut rng);
    let nb = ctx.tier.pick(12u64, 96).min(n);
    // bases: a spread over the alphabet
    let bases: Vec<usize> = (0..nb as usize).map(|k| (k * ints.len()) / nb as usize).collect();
    let rad = [bases.len() as u64, es.len() as u64];
    ctx.sweep(
        &sub,
        crate::infra::space(&rad),
        |i| {
            let d = unrank(i, &rad);
            json!({"base": hex(&ints[bases[d[0]]]), "exp_limbs": es[d[1]].iter().map(|l| format!("{:#x}", l)).collect::<Vec<_>>()})
        },
        |i| {
            let d = unrank(i, &rad);
            let a = &ints[bases[d[0]]];
            let e = &es[d[1]];
            let got = match guard(|| els[bases[d[0]]].pow(e)) {
                Ok(x) => int_of(&x.into_repr()),
                Err(m) => return Err(Fail::new(format!("{} pow panicked: {}", name, m))),
            };
            let eint = limbs_to_big(e);
            let want = a.modpow(&eint, p);
            if got != want {
                return Err(Fail::with(format!("{} pow wrong", name), json!({"got": hex(&got), "want": hex(&want)})));
            }
            Ok(if e.len() > 1 && !a.is_zero() { "multi-limb" } else { "" })
        },
    );

    // ---- representation type
    let rints = alpha::repr_values(p, fc.limbs, &mut rng, ctx.tier.pick(12, 120));
    let reps: Vec<F::Repr> = rints.iter().map(|x| repr_of::<F::Repr>(x)).collect();
    let m = rints.len() as u64;
    let bits = 64 * fc.limbs;
    let full = alpha::pow2(bits);

    let sub = format!("{}.from_repr", name);
    ctx.sweep(
        &sub,
        m,
        |i| json!({"repr": hex(&rints[i as usize])}),
        |i| {
            let x = &rints[i as usize];
            match F::from_repr(reps[i as usize]) {
                Ok(f) => {
                    if x >= p {
                        return Err(Fail::new(format!("{} from_repr accepted a value >= modulus", name)));
                    }
                    if &int_of(&f.into_repr()) != x {
                        return Err(Fail::new(format!("{} from_repr/into_repr changed the value", name)));
                    }
                    Ok("accepted")
                }
                Err(_) => {
                    if x < p {
                        return Err(Fail::new(format!("{} from_repr rejected a reduced value", name)));
                    }
                    Ok("rejected")
                }
            }
        },
    );

    let sub = format!("{}repr.shift", name);
    let nsh = (2 * bits + 2) as u64;
    let rad = [2u64, nsh, m];
    ctx.sweep(
        &sub,
        crate::infra::space(&rad),
        |i| {
            let d = unrank(i, &rad);
            json!({"op": if d[0] == 0 {"shl"} else {"shr"}, "n": d[1], "repr": hex(&rints[d[2]])})
        },
        |i| {
            let d = unrank(i, &rad);
            let x = &rints[d[2]];
            let mut rr = reps[d[2]];
            let nn = d[1];
            let want = if d[0] == 0 {
                rr.shl(nn as u32);
                (x << nn) % &full
            } else {
                rr.shr(nn as u32);
                x >> nn
            };
            if int_of(&rr) != want {
                return Err(Fail::with(format!("{}Repr shift wrong", name), json!({"got": hex(&int_of(&rr)), "want": hex(&want)})));
            }
            Ok(if nn == 0 || x.is_zero() { "" } else if nn % 64 == 0 { "limb-aligned" } else if nn >= bits { "overshift" } else { "unaligned" })
        },
    );

    let sub = format!("{}repr.unary", name);
    let ruops = ["div2", "mul2", "num_bits", "parity", "is_zero", "be_roundtrip", "le_roundtrip", "from_u64", "display_default"];
    let rad = [ruops.len() as u64, m];
    ctx.sweep(
        &sub,
        crate::infra::space(&rad),
        |i| {
            let d = unrank(i, &rad);
            json!({"op": ruops[d[0]], "repr": hex(&rints[d[1]])})
        },
        |i| {
            let d = unrank(i, &rad);
            let x = &rints[d[1]];
            let rr = reps[d[1]];
            let bad = |what: &str| Err(Fail::new(format!("{}Repr {} wrong for {}", name, what, hex(x))));
            match d[0] {
                0 => {
                    let mut t = rr;
                    t.div2();
                    if int_of(&t) != (x >> 1) {
                        return bad("div2");
                    }
                }
                1 => {
                    let mut t = rr;
                    t.mul2();
                    if int_of(&t) != (x << 1) % &full {
                        return bad("mul2");
                    }
                }
                2 => {
                    if rr.num_bits() as usize != x.bits() {
                        return bad("num_bits");
                    }
                }
                3 => {
                    let odd = (x & BigUint::one()) == BigUint::one();
                    if rr.is_odd() != odd || rr.is_even() == odd {
                        return bad("is_odd/is_even");
                    }
                }
                4 => {
                    if rr.is_zero() != x.is_zero() {
                        return bad("is_zero");
                    }
                }
                5 => {
                    let mut buf = vec![];
                    rr.write_be(&mut buf).map_err(|e| Fail::new(format!("write_be failed: {}", e)))?;
                    let mut want = x.to_bytes_be();
                    while want.len() < bits / 8 {
                        want.insert(0, 0);
                    }
                    if buf != want {
                        return bad("write_be");
                    }
                    let mut back = F::Repr::default();
                    back.read_be(&buf[..]).map_err(|e| Fail::new(format!("read_be failed: {}", e)))?;
                    if back != rr {
                        return bad("read_be");
                    }
                }
                6 => {
                    let mut buf = vec![];
                    rr.write_le(&mut buf).map_err(|e| Fail::new(format!("write_le failed: {}", e)))?;
                    let mut want = x.to_bytes_le();
                    while want.len() < bits / 8 {
                        want.push(0);
                    }
                    if buf != want {
                        return bad("write_le");
                    }
                    let mut back = F::Repr::default();
                    back.read_le(&buf[..]).map_err(|e| Fail::new(format!("read_le failed: {}", e)))?;
                    if back != rr {
                        return bad("read_le");
                    }
                }
                7 => {
                    let low = rr.as_ref()[0];
                    let f = F::Repr::from(low);
                    if int_of(&f) != BigUint::from(low) {
                        return bad("From<u64>");
                    }
                }
                _ => {
                    if !F::Repr::default().is_zero() {
                        return bad("default");
                    }
                }
            }
            Ok(if x.is_zero() { "" } else { ruops[d[0]] })
        },
    );

    let sub = format!("{}repr.binary", name);
    let rbops = ["cmp", "add_nocarry", "sub_noborrow"];
    let rad = [3u64, m, m];
    ctx.sweep(
        &sub,
        crate::infra::space(&rad),
        |i| {
            let d = unrank(i, &rad);
            json!({"op": rbops[d[0]], "a": hex(&rints[d[1]]), "b": hex(&rints[d[2]])})
        },
        |i| {
            let d = unrank(i, &rad);
            let (a, b) = (&rints[d[1]], &rints[d[2]]);
            let (ra, rb) = (reps[d[1]], reps[d[2]]);
            match d[0] {
                0 => {
                    let want = a.cmp(b);
                    if ra.cmp(&rb) != want || (ra == rb) != (want == Ordering::Equal) || (ra < rb) != (want == Ordering::Less) {
                        return Err(Fail::new(format!("{}Repr ordering disagrees with integers", name)));
                    }
                    Ok("cmp")
                }
                1 => {
                    let s = a + b;
                    if s >= full {
                        return Ok(""); // outside the no-carry precondition: not compared
                    }
                    let mut t = ra;
                    t.add_nocarry(&rb);
                    if int_of(&t) != s {
                        return Err(Fail::new(format!("{}Repr add_nocarry wrong", name)));
                    }
                    Ok("add_nocarry")
                }
                _ => {
                    if a < b {
                        return Ok(""); // outside the no-borrow precondition
                    }
                    let mut t = ra;
                    t.sub_noborrow(&rb);
                    if int_of(&t) != a - b {
                        return Err(Fail::new(format!("{}Repr sub_noborrow wrong", name)));
                    }
                    Ok("sub_noborrow")
                }
            }
        },
    );
}

pub fn run(ctx: &Ctx) -> (&'static str, &'static str) {
    field_checks::<Fq>(
        ctx,
        &FieldCase { name: "Fq", p: q().clone(), limbs: 6, raw: |x| unsafe {
            let l = big_to_limbs(x, 6);
            transmute::fq(FqRepr([l[0], l[1], l[2], l[3], l[4], l[5]]))
        } },
    );
    field_checks::<Fr>(
        ctx,
        &FieldCase { name: "Fr", p: r().clone(), limbs: 4, raw: |x| unsafe {
            let l = big_to_limbs(x, 4);
            transmute::fr(FrRepr([l[0], l[1], l[2], l[3]]))
        } },
    );
    // concrete-type call forms (an inherent method would shadow the trait method the generic sweeps use)
    {
        let mut rng = ctx.rng("c08.shadow");
        let iq = alpha::field_values(q(), 6, &mut rng, 8);
        let eq: Vec<Fq> = iq.iter().step_by(3).map(|x| Fq::from_repr(repr_of::<FqRepr>(x)).unwrap()).collect();
        let ir = alpha::field_values(r(), 4, &mut rng, 8);
        let er: Vec<Fr> = ir.iter().step_by(3).map(|x| Fr::from_repr(repr_of::<FrRepr>(x)).unwrap()).collect();
        let mut es = exponent_shapes();
        es.extend(exps(q(), &mut rng).into_iter().step_by(5));
        shadow_field!(ctx, "Fq", Fq, &eq, &es);
        shadow_field!(ctx, "Fr", Fr, &er, &es);
        shadow_sqrt!(ctx, "Fq", Fq, &eq);
        shadow_sqrt!(ctx, "Fr", Fr, &er);
        let rq: Vec<FqRepr> = alpha::repr_values(q(), 6, &mut rng, 8).iter().step_by(2).map(|x| repr_of::<FqRepr>(x)).collect();
        let rr: Vec<FrRepr> = alpha::repr_values(r(), 4, &mut rng, 8).iter().step_by(2).map(|x| repr_of::<FrRepr>(x)).collect();
        shadow_repr!(ctx, "FqRepr", FqRepr, &rq);
        shadow_repr!(ctx, "FrRepr", FrRepr, &rr);
    }
    ctx.assume("integers mod p are computed with num-bigint (%, modpow); the subject's arithmetic is derive-generated Montgomery code");
    (
        "exploration",
        "full cross product of a deduplicated value alphabet (boundary integers at every limb boundary, Montgomery radix values, zero/all-ones limbs, seeded tail) with every operation; all shift amounts 0..=2*bits+1; a case is non-trivial when no operand is zero (binary/unary) or when it falls in a named non-default class (multi-limb exponent, unaligned/over shift, accepted/rejected repr); add_nocarry/sub_noborrow are only compared inside their preconditions",
    )
}
