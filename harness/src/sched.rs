//! Deviation(preemption)-bounded exhaustive scheduler over real OS threads (DESIGN.md M2, C20).
//! A baton: exactly one thread runs between scheduling points.  Scheduling points are operation
//! boundaries (explicit) and the subject's cfg-guarded `verif_hooks::point(id)` calls.  The explorer
//! re-executes the harness with a choice prefix and default choices afterwards, and branches on every
//! later choice point within the preemption bound.
#![allow(dead_code)]
use std::sync::{Arc, Condvar, Mutex};

#[derive(Clone, Debug, PartialEq, Eq)]
pub struct Choice {
    /// canonical order: the running thread first if still enabled, then ascending ids
    pub enabled: Vec<usize>,
    pub chosen: usize,
    /// Some(t) if thread t was running and is still enabled (choosing index != 0 is a preemption)
    pub running: Option<usize>,
    pub point: u32,
}

struct Inner {
    n: usize,
    arrived: usize,
    current: Option<usize>,
    finished: Vec<bool>,
    prefix: Vec<usize>,
    trace: Vec<Choice>,
    steps: usize,
    abort: Option<String>,
}

pub struct Sched {
    inner: Mutex<Inner>,
    cv: Condvar,
    max_steps: usize,
}

impl Sched {
    pub fn new(n: usize, prefix: Vec<usize>, max_steps: usize) -> Arc<Sched> {
        Arc::new(Sched { inner: Mutex::new(Inner { n, arrived: 0, current: None, finished: vec![false; n], prefix, trace: vec![], steps: 0, abort: None }), cv: Condvar::new(), max_steps })
    }
    fn decide(g: &mut Inner, running: Option<usize>, point: u32, max_steps: usize) {
        let mut enabled: Vec<usize> = vec![];
        if let Some(t) = running {
            enabled.push(t);
        }
        for t in 0..g.n {
            if !g.finished[t] && Some(t) != running {
                enabled.push(t);
            }
        }
        if enabled.is_empty() {
            g.current = None;
            return;
        }
        let k = g.trace.len();
        let chosen = if k < g.prefix.len() {
            let c = g.prefix[k];
            if c >= enabled.len() {
                g.abort = Some(format!("replay divergence: prefix choice {} at point {} but only {} threads enabled", c, k, enabled.len()));
                0
            } else {
                c
            }
        } else {
            0
        };
        g.steps += 1;
        if g.steps > max_steps {
            g.abort = Some(format!("horizon of {} scheduling steps exceeded", max_steps));
        }
        g.current = Some(enabled[chosen]);
        g.trace.push(Choice { enabled, chosen, running, point });
    }
    /// called by every harness thread before its body
    pub fn start(&self, tid: usize) {
        let mut g = self.inner.lock().unwrap();
        g.arrived += 1;
        if g.arrived == g.n {
            Self::decide(&mut g, None, 0, self.max_steps);
            self.cv.notify_all();
        }
        while g.current != Some(tid) && g.abort.is_none() {
            g = self.cv.wait(g).unwrap();
        }
    }
    /// a scheduling point reached by the running thread
    pub fn yield_point(&self, tid: usize, point: u32) {
        let mut g = self.inner.lock().unwrap();
        if g.abort.is_some() {
            return;
        }
        assert_eq!(g.current, Some(tid), "scheduler: a thread ran without holding the baton");
        Self::decide(&mut g, Some(tid), point, self.max_steps);
        self.cv.notify_all();
        while g.current != Some(tid) && g.abort.is_none() {
            g = self.cv.wait(g).unwrap();
        }
    }
    pub fn finish(&self, tid: usize) {
        let mut g = self.inner.lock().unwrap();
        g.finished[tid] = true;
        if g.abort.is_some() {
            self.cv.notify_all();
            return;
        }
        Self::decide(&mut g, None, u32::MAX, self.max_steps);
        self.cv.notify_all();
    }
    pub fn result(&self) -> (Vec<Choice>, Option<String>) {
        let g = self.inner.lock().unwrap();
        (g.trace.clone(), g.abort.clone())
    }
}

pub struct RunOut {
    pub trace: Vec<Choice>,
    pub outputs: Vec<Vec<u8>>,
    pub abort: Option<String>,
}

/// A harness: `n` thread bodies over shared state prepared by the caller.  `body(tid, &yield)` returns the
/// thread's observable output.  `hook_points`: subject hook ids that are scheduling points in this harness.
pub struct Harness<'a> {
    pub name: String,
    pub n: usize,
    pub body: &'a (dyn Fn(usize, &dyn Fn()) -> Vec<u8> + Sync),
    pub hook_points: Vec<u32>,
}

pub fn run_once(h: &Harness, prefix: &[usize], max_steps: usize) -> RunOut {
    let sched = Sched::new(h.n, prefix.to_vec(), max_steps);
    let outputs: Vec<Vec<u8>> = std::thread::scope(|s| {
        let mut hs = vec![];
        for tid in 0..h.n {
            let sched = sched.clone();
            let hook_points = h.hook_points.clone();
            let body = h.body;
            hs.push(s.spawn(move || {
                let s2 = sched.clone();
                let hp = hook_points.clone();
                pairing_plus::verif_hooks::set_point_callback(Some(Box::new(move |id| {
                    if hp.contains(&id) {
                        s2.yield_point(tid, id);
                    }
                })));
                sched.start(tid);
                let s3 = sched.clone();
                let y = move || s3.yield_point(tid, 1);
                let r = std::panic::catch_unwind(std::panic::AssertUnwindSafe(|| body(tid, &y)));
                pairing_plus::verif_hooks::set_point_callback(None);
                sched.finish(tid);
                match r {
                    Ok(v) => v,
                    Err(_) => b"PANIC".to_vec(),
                }
            }));
        }
        hs.into_iter().map(|h| h.join().unwrap_or_else(|_| b"JOIN-PANIC".to_vec())).collect()
    });
    let (trace, abort) = sched.result();
    RunOut { trace, outputs, abort }
}

pub struct ExploreStats {
    pub schedules: u64,
    pub choice_points: u64,
    pub max_preemptions_used: usize,
    pub distinct_outcomes: usize,
    pub violation: Option<(Vec<usize>, String)>,
    pub machinery: Option<String>,
    pub capped: bool,
}

fn preemptions(trace: &[Choice], upto: usize) -> usize {
    trace[..upto].iter().filter(|c| c.running.is_some() && c.chosen != 0).count()
}

pub fn explore(h: &Harness, bound: usize, max_schedules: u64, check: &dyn Fn(&RunOut) -> Result<(), String>) -> ExploreStats {
    let mut st = ExploreStats { schedules: 0, choice_points: 0, max_preemptions_used: 0, distinct_outcomes: 0, violation: None, machinery: None, capped: false };
    let mut outcomes: std::collections::HashSet<Vec<Vec<u8>>> = Default::default();
    let mut stack: Vec<Vec<usize>> = vec![vec![]];
    let mut first: Option<RunOut> = None;
    while let Some(prefix) = stack.pop() {
        if st.schedules >= max_schedules {
            st.capped = true;
            break;
        }
        let x = run_once(h, &prefix, 10_000);
        st.schedules += 1;
        st.choice_points += x.trace.len() as u64;
        if let Some(a) = &x.abort {
            st.machinery = Some(format!("{}: {}", h.name, a));
            return st;
        }
        // the prefix must have been replayed exactly
        for (i, c) in prefix.iter().enumerate() {
            if x.trace.get(i).map(|t| t.chosen) != Some(*c) {
                st.machinery = Some(format!("{}: divergence while replaying a schedule prefix at choice {}", h.name, i));
                return st;
            }
        }
        st.max_preemptions_used = st.max_preemptions_used.max(preemptions(&x.trace, x.trace.len()));
        outcomes.insert(x.outputs.clone());
        if let Err(e) = check(&x) {
            let choices: Vec<usize> = x.trace.iter().map(|c| c.chosen).collect();
            st.violation = Some((choices, e));
            st.distinct_outcomes = outcomes.len();
            return st;
        }
        for i in prefix.len()..x.trace.len() {
            let p = &x.trace[i];
            let before = preemptions(&x.trace, i);
            for alt in 1..p.enabled.len() {
                let cost = before + if p.running.is_some() { 1 } else { 0 };
                if cost > bound {
                    continue;
                }
                let mut np: Vec<usize> = x.trace[..i].iter().map(|c| c.chosen).collect();
                np.push(alt);
                stack.push(np);
            }
        }
        if first.is_none() {
            first = Some(x);
        }
    }
    st.distinct_outcomes = outcomes.len();
    // determinism of the explorer itself: the default schedule replayed twice gives identical observations
    if let Some(f) = first {
        let choices: Vec<usize> = f.trace.iter().map(|c| c.chosen).collect();
        let a = run_once(h, &choices, 10_000);
        let b = run_once(h, &choices, 10_000);
        if a.trace != b.trace || a.outputs != b.outputs || a.trace != f.trace {
            st.machinery = Some(format!("{}: replaying one schedule twice gave different observations (uncontrolled nondeterminism)", h.name));
        }
    }
    st
}
