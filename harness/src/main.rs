//! ppverif — bounded exhaustive exploration of pairing-plus against an independent reference model.
//! usage: ppverif <ID> [--tier quick|thorough] [--replay <file>]      (see /verif/DESIGN.md)
#[macro_use]
extern crate zeroize;

#[macro_use]
mod shadow;
mod checks;
mod conv;
mod h2cref;
mod infra;
mod refmodel;
mod sched;
mod alpha;
mod mc;
mod points;
mod polyroots;
mod toy;
mod wire;
mod toymodel;
mod zgroup;

use infra::{Ctx, Tier};

fn main() {
    let args: Vec<String> = std::env::args().collect();
    if args.len() < 2 {
        eprintln!("usage: ppverif <ID> [--tier quick|thorough] [--replay <file>]");
        std::process::exit(2);
    }
    if args[1] == "__c20_op" {
        // child mode for C20: run one operation instance first in a fresh process and print its bits
        let i: usize = args.get(2).and_then(|s| s.parse().ok()).unwrap_or(0);
        println!("{}", checks::c20::hex_of(&checks::c20::run_op(i)));
        return;
    }
    if args[1] == "__c20_stress" {
        infra::install_panic_hook();
        let s: usize = args.get(2).and_then(|s| s.parse().ok()).unwrap_or(0);
        checks::c20::stress_child(s);
        return;
    }
    let id = args[1].clone();
    let mut tier = match std::env::var("VERIF_TIER").ok().as_deref() {
        Some("thorough") => Tier::Thorough,
        _ => Tier::Quick,
    };
    let mut seed: u64 = std::env::var("VERIF_SEED").ok().and_then(|s| s.parse::<i128>().ok()).map(|v| v as u64).unwrap_or(1);
    let mut replay = None;
    let mut i = 2;
    while i < args.len() {
        match args[i].as_str() {
            "--tier" => {
                i += 1;
                tier = if args.get(i).map(|s| s.as_str()) == Some("thorough") { Tier::Thorough } else { Tier::Quick };
            }
            "quick" => tier = Tier::Quick,
            "thorough" => tier = Tier::Thorough,
            "--replay" => {
                i += 1;
                let path = args.get(i).cloned().unwrap_or_default();
                let txt = match std::fs::read_to_string(&path) {
                    Ok(t) => t,
                    Err(e) => {
                        eprintln!("MACHINERY: cannot read replay file {}: {}", path, e);
                        std::process::exit(2);
                    }
                };
                let v: serde_json::Value = serde_json::from_str(&txt).expect("replay file is not JSON");
                let sub = v["sub"].as_str().unwrap_or("").to_string();
                let index = v["index"].as_u64().unwrap_or(0);
                if v["tier"].as_str() == Some("thorough") {
                    tier = Tier::Thorough;
                } else {
                    tier = Tier::Quick;
                }
                seed = v["seed"].as_u64().unwrap_or(seed);
                replay = Some((sub, index));
            }
            _ => {}
        }
        i += 1;
    }
    infra::install_panic_hook();
    let ctx = Ctx::new(&id, tier, seed, replay);
    let (level, rule) = match std::panic::catch_unwind(std::panic::AssertUnwindSafe(|| checks::run(&ctx))) {
        Ok(Some(x)) => x,
        Ok(None) => {
            eprintln!("MACHINERY: unknown property id {}", id);
            std::process::exit(2);
        }
        Err(_) => {
            infra::report_abort(&ctx);
            ("exploration", "the check body aborted before completing; see violations / machinery_errors")
        }
    };
    let code = ctx.finish(level, rule);
    std::process::exit(code);
}
