//! Toy instantiations of the repository's own `curve_impl!` macro (text extracted by build.rs from the
//! working tree) over hand-written tiny fields, plus the exponent-tracking group `ZGroup`
//! (DESIGN.md §2/M1).  Only the field type parameter is small; the group code is the subject's.
#![allow(dead_code, unused_imports, unused_variables, clippy::all)]
use ff::{BitIterator, Field, LegendreSymbol, PrimeField, PrimeFieldRepr, SqrtField};
use std::cell::Cell;
use std::fmt;

thread_local! {
    /// window returned by the toy groups' `recommended_wnaf_*` (harness-controlled, per thread)
    pub static WNAF_W: Cell<usize> = Cell::new(4);
}
pub fn set_wnaf_window(w: usize) {
    WNAF_W.with(|c| c.set(w));
}
pub fn wnaf_window() -> usize {
    WNAF_W.with(|c| c.get())
}

// ------------------------------------------------------------------------------------------
// F_p for tiny p (p = 3 mod 4)
// ------------------------------------------------------------------------------------------
#[derive(Copy, Clone, PartialEq, Eq, Debug, PartialOrd, Ord, Hash, Default)]
pub struct Fp<const P: u32>(pub u32);
impl<const P: u32> fmt::Display for Fp<P> {
    fn fmt(&self, f: &mut fmt::Formatter) -> fmt::Result {
        write!(f, "{}", self.0)
    }
}
impl<const P: u32> zeroize::Zeroize for Fp<P> {
    fn zeroize(&mut self) {
        self.0 = 0;
    }
}
impl<const P: u32> Fp<P> {
    pub fn new(x: u32) -> Self {
        Fp(x % P)
    }
    fn powu(&self, mut e: u32) -> Self {
        let mut base = *self;
        let mut acc = Fp::<P>(1);
        while e > 0 {
            if e & 1 == 1 {
                acc.mul_assign(&base);
            }
            base.square();
            e >>= 1;
        }
        acc
    }
}
impl<const P: u32> Field for Fp<P> {
    fn random<R: rand_core::RngCore + ?Sized>(rng: &mut R) -> Self {
        Fp(rng.next_u32() % P)
    }
    fn zero() -> Self {
        Fp(0)
    }
    fn one() -> Self {
        Fp(1)
    }
    fn is_zero(&self) -> bool {
        self.0 == 0
    }
    fn square(&mut self) {
        self.0 = (self.0 * self.0) % P;
    }
    fn double(&mut self) {
        self.0 = (self.0 * 2) % P;
    }
    fn negate(&mut self) {
        self.0 = (P - self.0) % P;
    }
    fn add_assign(&mut self, o: &Self) {
        self.0 = (self.0 + o.0) % P;
    }
    fn sub_assign(&mut self, o: &Self) {
        self.0 = (self.0 + P - o.0) % P;
    }
    fn mul_assign(&mut self, o: &Self) {
        self.0 = (self.0 * o.0) % P;
    }
    fn inverse(&self) -> Option<Self> {
        if self.0 == 0 {
            None
        } else {
            Some(self.powu(P - 2))
        }
    }
    fn frobenius_map(&mut self, _power: usize) {}
}
impl<const P: u32> SqrtField for Fp<P> {
    fn legendre(&self) -> LegendreSymbol {
        if self.0 == 0 {
            LegendreSymbol::Zero
        } else if self.powu((P - 1) / 2).0 == 1 {
            LegendreSymbol::QuadraticResidue
        } else {
            LegendreSymbol::QuadraticNonResidue
        }
    }
    fn sqrt(&self) -> Option<Self> {
        (0..P).map(Fp::<P>).find(|y| (y.0 * y.0) % P == self.0)
    }
}

// ------------------------------------------------------------------------------------------
// F_p^2 = F_p[u]/(u^2+1), ordered like the subject's Fq2 (c1 most significant)
// ------------------------------------------------------------------------------------------
#[derive(Copy, Clone, PartialEq, Eq, Debug, Hash, Default)]
pub struct Fp2<const P: u32> {
    pub c0: Fp<P>,
    pub c1: Fp<P>,
}
impl<const P: u32> Ord for Fp2<P> {
    fn cmp(&self, o: &Self) -> std::cmp::Ordering {
        self.c1.cmp(&o.c1).then(self.c0.cmp(&o.c0))
    }
}
impl<const P: u32> PartialOrd for Fp2<P> {
    fn partial_cmp(&self, o: &Self) -> Option<std::cmp::Ordering> {
        Some(self.cmp(o))
    }
}
impl<const P: u32> fmt::Display for Fp2<P> {
    fn fmt(&self, f: &mut fmt::Formatter) -> fmt::Result {
        write!(f, "{}+{}u", self.c0.0, self.c1.0)
    }
}
impl<const P: u32> zeroize::Zeroize for Fp2<P> {
    fn zeroize(&mut self) {
        self.c0.0 = 0;
        self.c1.0 = 0;
    }
}
impl<const P: u32> Fp2<P> {
    pub fn new(c0: u32, c1: u32) -> Self {
        Fp2 { c0: Fp::new(c0), c1: Fp::new(c1) }
    }
    pub fn all() -> Vec<Self> {
        let mut v = vec![];
        for c1 in 0..P {
            for c0 in 0..P {
                v.push(Fp2::new(c0, c1));
            }
        }
        v
    }
}
impl<const P: u32> Field for Fp2<P> {
    fn random<R: rand_core::RngCore + ?Sized>(rng: &mut R) -> Self {
        Fp2 { c0: Fp::random(rng), c1: Fp::random(rng) }
    }
    fn zero() -> Self {
        Fp2::new(0, 0)
    }
    fn one() -> Self {
        Fp2::new(1, 0)
    }
    fn is_zero(&self) -> bool {
        self.c0.0 == 0 && self.c1.0 == 0
    }
    fn square(&mut self) {
        let t = *self;
        self.mul_assign(&t);
    }
    fn double(&mut self) {
        self.c0.double();
        self.c1.double();
    }
    fn negate(&mut self) {
        self.c0.negate();
        self.c1.negate();
    }
    fn add_assign(&mut self, o: &Self) {
        self.c0.add_assign(&o.c0);
        self.c1.add_assign(&o.c1);
    }
    fn sub_assign(&mut self, o: &Self) {
        self.c0.sub_assign(&o.c0);
        self.c1.sub_assign(&o.c1);
    }
    fn mul_assign(&mut self, o: &Self) {
        let (a, b, c, d) = (self.c0.0, self.c1.0, o.c0.0, o.c1.0);
        self.c0 = Fp::new((a * c + (P - 1) * ((b * d) % P)) % P);
        self.c1 = Fp::new((a * d + b * c) % P);
    }
    fn inverse(&self) -> Option<Self> {
        if self.is_zero() {
            return None;
        }
        let n = Fp::<P>::new(self.c0.0 * self.c0.0 + self.c1.0 * self.c1.0);
        let ni = n.inverse().unwrap();
        let mut c0 = self.c0;
        c0.mul_assign(&ni);
        let mut c1 = self.c1;
        c1.negate();
        c1.mul_assign(&ni);
        Some(Fp2 { c0, c1 })
    }
    fn frobenius_map(&mut self, power: usize) {
        if power % 2 == 1 {
            self.c1.negate();
        }
    }
}
impl<const P: u32> SqrtField for Fp2<P> {
    fn legendre(&self) -> LegendreSymbol {
        if self.is_zero() {
            LegendreSymbol::Zero
        } else if self.sqrt().is_some() {
            LegendreSymbol::QuadraticResidue
        } else {
            LegendreSymbol::QuadraticNonResidue
        }
    }
    fn sqrt(&self) -> Option<Self> {
        Self::all().into_iter().find(|y| {
            let mut t = *y;
            t.square();
            t == *self
        })
    }
}

/// enumerate all elements of a toy field
pub trait ToyField: Field + SqrtField + Ord + std::hash::Hash + zeroize::Zeroize {
    fn all_elems() -> Vec<Self>;
    fn code(&self) -> u32;
}
impl<const P: u32> ToyField for Fp<P> {
    fn all_elems() -> Vec<Self> {
        (0..P).map(Fp::<P>).collect()
    }
    fn code(&self) -> u32 {
        self.0
    }
}
impl<const P: u32> ToyField for Fp2<P> {
    fn all_elems() -> Vec<Self> {
        Self::all()
    }
    fn code(&self) -> u32 {
        self.c1.0 * P + self.c0.0
    }
}

// ------------------------------------------------------------------------------------------
// the instantiation macro
// ------------------------------------------------------------------------------------------
macro_rules! toy_curve {
    ($modname:ident, $base:ty, $b:expr, $gx:expr, $gy:expr) => {
        pub mod $modname {
            use super::*;
            use ff::{BitIterator, Field, PrimeField, PrimeFieldRepr, SqrtField};
            use pairing_plus::bls12_381::{Bls12, Fq12, Fr, FrRepr};
            use pairing_plus::{CurveAffine, CurveProjective, EncodedPoint, Engine, GroupDecodingError};
            use zeroize::Zeroize;
            include!(concat!(env!("OUT_DIR"), "/curve_impl_extracted.rs"));
            pub type Base = $base;
            curve_impl!("Toy", Proj, Aff, Prep, Base, Fr, Unc, Comp, Aff);

            #[derive(Clone, Debug)]
            pub struct Prep(pub Aff);
            impl Prep {
                pub fn from_affine(p: Aff) -> Self {
                    Prep(p)
                }
            }
            #[derive(Copy, Clone)]
            pub struct Unc([u8; 1]);
            #[derive(Copy, Clone)]
            pub struct Comp([u8; 1]);
            macro_rules! enc_stub {
                ($t:ident) => {
                    impl AsRef<[u8]> for $t {
                        fn as_ref(&self) -> &[u8] {
                            &self.0
                        }
                    }
                    impl AsMut<[u8]> for $t {
                        fn as_mut(&mut self) -> &mut [u8] {
                            &mut self.0
                        }
                    }
                    impl EncodedPoint for $t {
                        type Affine = Aff;
                        fn empty() -> Self {
                            $t([0])
                        }
                        fn size() -> usize {
                            1
                        }
                        fn into_affine(&self) -> Result<Aff, GroupDecodingError> {
                            Err(GroupDecodingError::NotOnCurve)
                        }
                        fn into_affine_unchecked(&self) -> Result<Aff, GroupDecodingError> {
                            Err(GroupDecodingError::NotOnCurve)
                        }
                        fn from_affine(_: Aff) -> Self {
                            $t([0])
                        }
                    }
                };
            }
            enc_stub!(Unc);
            enc_stub!(Comp);
            impl Aff {
                fn get_generator() -> Self {
                    Aff { x: $gx, y: $gy, infinity: false }
                }
                fn get_coeff_b() -> Base {
                    $b
                }
                fn scale_by_cofactor(&self) -> Proj {
                    self.mul_bits(BitIterator::new([1u64]))
                }
                fn perform_pairing(&self, _other: &Aff) -> Fq12 {
                    Fq12::one()
                }
                pub fn coeff_b() -> Base {
                    $b
                }
                pub fn raw(x: Base, y: Base, infinity: bool) -> Aff {
                    Aff { x, y, infinity }
                }
                pub fn on_curve(&self) -> bool {
                    self.is_on_curve()
                }
            }
            impl Proj {
                fn empirical_recommended_wnaf_for_scalar(_scalar: FrRepr) -> usize {
                    super::wnaf_window()
                }
                fn empirical_recommended_wnaf_for_num_scalars(_n: usize) -> usize {
                    super::wnaf_window()
                }
                pub fn raw(x: Base, y: Base, z: Base) -> Proj {
                    Proj { x, y, z }
                }
            }
        }
    };
}

pub type F7 = Fp<7>;
pub type F19 = Fp<19>;
pub type F31 = Fp<31>;
pub type F19x2 = Fp2<19>;
pub type F7x2 = Fp2<7>;

// generators are fixed here and validated (on curve, order) by the checks at run time
#[cfg(feature = "toy")]
toy_curve!(t7_2, F7, Fp::<7>(2), Fp::<7>(0), Fp::<7>(3)); // y^2 = x^3 + 2 over F_7
#[cfg(feature = "toy")]
toy_curve!(t19_4, F19, Fp::<19>(4), Fp::<19>(1), Fp::<19>(9)); // y^2 = x^3 + 4 over F_19 (5 = 9^2 mod 19)
#[cfg(feature = "toy")]
toy_curve!(t19_5, F19, Fp::<19>(5), Fp::<19>(1), Fp::<19>(5)); // y^2 = x^3 + 5 over F_19 (6 = 5^2 mod 19)
#[cfg(feature = "toy")]
toy_curve!(t31_5, F31, Fp::<31>(5), Fp::<31>(1), Fp::<31>(0)); // generator fixed up at run time if invalid
#[cfg(feature = "toy")]
toy_curve!(t19x2, F19x2, Fp2::<19>::new(4, 4), Fp2::<19>::new(0, 0), Fp2::<19>::new(0, 0)); // y^2 = x^3 + 4(1+u) over F_19^2

// ------------------------------------------------------------------------------------------
// uniform access to a toy instance
// ------------------------------------------------------------------------------------------
pub trait ToyCurve: 'static {
    type F: ToyField;
    type A: pairing_plus::CurveAffine<Projective = Self::P, Base = Self::F, Scalar = pairing_plus::bls12_381::Fr>;
    type P: pairing_plus::CurveProjective<Affine = Self::A, Base = Self::F, Scalar = pairing_plus::bls12_381::Fr>;
    const NAME: &'static str;
    fn b() -> Self::F;
    fn aff(x: Self::F, y: Self::F, inf: bool) -> Self::A;
    fn proj(x: Self::F, y: Self::F, z: Self::F) -> Self::P;
}
macro_rules! toy_access {
    ($t:ident, $m:ident, $name:expr) => {
        pub struct $t;
        impl ToyCurve for $t {
            type F = $m::Base;
            type A = $m::Aff;
            type P = $m::Proj;
            const NAME: &'static str = $name;
            fn b() -> Self::F {
                $m::Aff::coeff_b()
            }
            fn aff(x: Self::F, y: Self::F, inf: bool) -> Self::A {
                $m::Aff::raw(x, y, inf)
            }
            fn proj(x: Self::F, y: Self::F, z: Self::F) -> Self::P {
                $m::Proj::raw(x, y, z)
            }
        }
    };
}
#[cfg(feature = "toy")]
toy_access!(T7_2, t7_2, "toy(7,2)");
#[cfg(feature = "toy")]
toy_access!(T19_4, t19_4, "toy(19,4)");
#[cfg(feature = "toy")]
toy_access!(T19_5, t19_5, "toy(19,5)");
#[cfg(feature = "toy")]
toy_access!(T31_5, t31_5, "toy(31,5)");
#[cfg(feature = "toy")]
toy_access!(T19X2, t19x2, "toy(19^2,4+4u)");
