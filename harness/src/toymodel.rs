//! The abstract group of a toy curve: all affine points found by brute force, Cayley table built with the
//! harness's own affine chord-and-tangent code over the toy field.  This is the reference model for M1.
#![allow(dead_code)]
use crate::toy::{ToyCurve, ToyField};
use ff::Field;
use num_bigint::BigUint;
use pairing_plus::{CurveAffine, CurveProjective};
use std::collections::HashMap;

pub struct Group<C: ToyCurve> {
    /// index 0 = identity
    pub pts: Vec<Option<(C::F, C::F)>>,
    pub index: HashMap<(u32, u32), usize>,
    pub add: Vec<Vec<u16>>,
    pub neg: Vec<u16>,
    pub order: Vec<u32>,
    pub exponent: u32,
}

fn aff_add<F: ToyField>(p: &Option<(F, F)>, q: &Option<(F, F)>) -> Option<(F, F)> {
    match (p, q) {
        (None, _) => *q,
        (_, None) => *p,
        (Some((x1, y1)), Some((x2, y2))) => {
            let lambda = if x1 == x2 {
                let mut s = *y1;
                s.add_assign(y2);
                if s.is_zero() {
                    return None;
                }
                // tangent: 3 x^2 / 2 y   (a = 0)
                let mut num = *x1;
                num.square();
                let mut t = num;
                t.double();
                num.add_assign(&t);
                let mut den = *y1;
                den.double();
                num.mul_assign(&den.inverse().unwrap());
                num
            } else {
                let mut num = *y2;
                num.sub_assign(y1);
                let mut den = *x2;
                den.sub_assign(x1);
                num.mul_assign(&den.inverse().unwrap());
                num
            };
            let mut x3 = lambda;
            x3.square();
            x3.sub_assign(x1);
            x3.sub_assign(x2);
            let mut y3 = *x1;
            y3.sub_assign(&x3);
            y3.mul_assign(&lambda);
            y3.sub_assign(y1);
            Some((x3, y3))
        }
    }
}

impl<C: ToyCurve> Group<C> {
    pub fn build() -> Group<C> {
        let b = C::b();
        let elems = C::F::all_elems();
        let mut pts: Vec<Option<(C::F, C::F)>> = vec![None];
        for x in &elems {
            let mut rhs = *x;
            rhs.square();
            rhs.mul_assign(x);
            rhs.add_assign(&b);
            for y in &elems {
                let mut y2 = *y;
                y2.square();
                if y2 == rhs {
                    pts.push(Some((*x, *y)));
                }
            }
        }
        let mut index = HashMap::new();
        for (i, p) in pts.iter().enumerate() {
            if let Some((x, y)) = p {
                index.insert((x.code(), y.code()), i);
            }
        }
        let n = pts.len();
        let lookup = |p: &Option<(C::F, C::F)>| -> usize {
            match p {
                None => 0,
                Some((x, y)) => *index.get(&(x.code(), y.code())).expect("toy model: sum left the curve"),
            }
        };
        let mut add = vec![vec![0u16; n]; n];
        for i in 0..n {
            for j in 0..n {
                add[i][j] = lookup(&aff_add(&pts[i], &pts[j])) as u16;
            }
        }
        let mut neg = vec![0u16; n];
        for i in 0..n {
            neg[i] = (0..n).find(|&j| add[i][j] == 0).expect("toy model: no inverse") as u16;
        }
        // sanity of the model itself: commutative, identity, (for small n) associative
        for i in 0..n {
            assert_eq!(add[0][i] as usize, i);
            for j in 0..n {
                assert_eq!(add[i][j], add[j][i], "toy model not commutative");
            }
        }
        if n <= 64 {
            for i in 0..n {
                for j in 0..n {
                    for k in 0..n {
                        assert_eq!(add[add[i][j] as usize][k], add[i][add[j][k] as usize], "toy model not associative");
                    }
                }
            }
        }
        let mut order = vec![1u32; n];
        let mut exponent = 1u32;
        for i in 1..n {
            let mut acc = i;
            let mut o = 1u32;
            while acc != 0 {
                acc = add[acc][i] as usize;
                o += 1;
            }
            order[i] = o;
            exponent = lcm(exponent, o);
        }
        // no 2-torsion, as for the real curves (the subject's doubling relies on it)
        for p in pts.iter().flatten() {
            assert!(!p.1.is_zero(), "toy curve has a point with y = 0; choose another b");
        }
        Group { pts, index, add, neg, order, exponent }
    }
    pub fn n(&self) -> usize {
        self.pts.len()
    }
    pub fn plus(&self, i: usize, j: usize) -> usize {
        self.add[i][j] as usize
    }
    pub fn minus(&self, i: usize, j: usize) -> usize {
        self.add[i][self.neg[j] as usize] as usize
    }
    pub fn mul_u64(&self, i: usize, mut k: u64) -> usize {
        let mut acc = 0usize;
        let mut base = i;
        while k > 0 {
            if k & 1 == 1 {
                acc = self.plus(acc, base);
            }
            base = self.plus(base, base);
            k >>= 1;
        }
        acc
    }
    pub fn mul_big(&self, i: usize, k: &BigUint) -> usize {
        let o = self.order[i] as u64;
        let km = (k % BigUint::from(o)).to_u32_digits();
        self.mul_u64(i, km.first().copied().unwrap_or(0) as u64)
    }
    /// abstraction of a projective value: Some(index) if it denotes a point of the curve (or Z = 0)
    pub fn abs(&self, p: &C::P) -> Option<usize> {
        let (x, y, z) = p.as_tuple();
        if z.is_zero() {
            return Some(0);
        }
        let zi = z.inverse().unwrap();
        let mut zi2 = zi;
        zi2.square();
        let mut xa = *x;
        xa.mul_assign(&zi2);
        zi2.mul_assign(&zi);
        let mut ya = *y;
        ya.mul_assign(&zi2);
        self.index.get(&(xa.code(), ya.code())).copied()
    }
    pub fn abs_aff(&self, a: &C::A) -> Option<usize> {
        if a.is_zero() {
            return Some(0);
        }
        let (x, y) = a.as_tuple();
        self.index.get(&(x.code(), y.code())).copied()
    }
    /// canonical affine value of a model point
    pub fn aff(&self, i: usize) -> C::A {
        match &self.pts[i] {
            None => C::A::zero(),
            Some((x, y)) => C::aff(*x, *y, false),
        }
    }
    /// Jacobian representative (l^2 x, l^3 y, l)
    pub fn rep(&self, i: usize, l: &C::F) -> C::P {
        match &self.pts[i] {
            None => C::P::zero(),
            Some((x, y)) => {
                let mut l2 = *l;
                l2.square();
                let mut l3 = l2;
                l3.mul_assign(l);
                let mut xx = *x;
                xx.mul_assign(&l2);
                let mut yy = *y;
                yy.mul_assign(&l3);
                C::proj(xx, yy, *l)
            }
        }
    }
    /// all projective values: every point x every lambda in F^*, plus identity encodings (X, Y, 0).
    /// `lambdas`/`id_forms` may restrict the enumeration (needed for the F_p^2 instance).
    pub fn all_proj(&self, lambdas: &[C::F], id_forms: &[(C::F, C::F)]) -> Vec<(C::P, usize)> {
        let mut v = vec![];
        for (x, y) in id_forms {
            v.push((C::proj(*x, *y, C::F::zero()), 0));
        }
        for i in 1..self.n() {
            for l in lambdas {
                v.push((self.rep(i, l), i));
            }
        }
        v
    }
    pub fn all_aff(&self) -> Vec<(C::A, usize)> {
        (0..self.n()).map(|i| (self.aff(i), i)).collect()
    }
}

fn gcd(a: u32, b: u32) -> u32 {
    if b == 0 {
        a
    } else {
        gcd(b, a % b)
    }
}
fn lcm(a: u32, b: u32) -> u32 {
    a / gcd(a, b) * b
}
