//! Exponent-tracking group: 768-bit two's-complement integers under addition implementing the subject's
//! `CurveProjective`.  Running a generic routine on the element 1 returns the integer multiplier it applies
//! (DESIGN.md §2/M1).  Also a one-limb `PrimeFieldRepr` so that `wnaf_form` can be enumerated completely.
#![allow(dead_code, unused_variables)]
use crate::toy::wnaf_window;
use ff::{PrimeField, PrimeFieldRepr};
use num_bigint::{BigInt, BigUint, Sign};
use pairing_plus::bls12_381::{Bls12, Fq, Fq12, Fr, FrRepr};
use pairing_plus::{CurveAffine, CurveProjective, EncodedPoint, GroupDecodingError};
use std::fmt;

pub const ZL: usize = 12;

#[derive(Copy, Clone, PartialEq, Eq, Debug, Hash)]
pub struct ZGroup(pub [u64; ZL]);
#[derive(Copy, Clone, PartialEq, Eq, Debug, Hash)]
pub struct ZAff(pub [u64; ZL]);

fn zadd(a: &[u64; ZL], b: &[u64; ZL]) -> [u64; ZL] {
    let mut out = [0u64; ZL];
    let mut carry = 0u128;
    for i in 0..ZL {
        let t = a[i] as u128 + b[i] as u128 + carry;
        out[i] = t as u64;
        carry = t >> 64;
    }
    out
}
fn zneg(a: &[u64; ZL]) -> [u64; ZL] {
    let mut inv = [0u64; ZL];
    for i in 0..ZL {
        inv[i] = !a[i];
    }
    let mut one = [0u64; ZL];
    one[0] = 1;
    zadd(&inv, &one)
}
fn zmul_small(a: &[u64; ZL], k: &[u64]) -> [u64; ZL] {
    // a * k mod 2^768 (k unsigned)
    let mut out = [0u64; ZL];
    for (j, kj) in k.iter().enumerate() {
        let mut carry = 0u128;
        for i in 0..ZL {
            if i + j >= ZL {
                break;
            }
            let t = out[i + j] as u128 + (a[i] as u128) * (*kj as u128) + carry;
            out[i + j] = t as u64;
            carry = t >> 64;
        }
    }
    out
}
impl ZGroup {
    pub fn from_i64(v: i64) -> ZGroup {
        let mut l = [0u64; ZL];
        l[0] = v.unsigned_abs();
        if v < 0 {
            ZGroup(zneg(&l))
        } else {
            ZGroup(l)
        }
    }
    pub fn from_big(v: &BigUint) -> ZGroup {
        let l = crate::conv::big_to_limbs(v, ZL);
        let mut a = [0u64; ZL];
        a.copy_from_slice(&l);
        ZGroup(a)
    }
    /// signed integer value
    pub fn value(&self) -> BigInt {
        if self.0[ZL - 1] >> 63 == 1 {
            let m = zneg(&self.0);
            -BigInt::from_biguint(Sign::Plus, crate::conv::limbs_to_big(&m))
        } else {
            BigInt::from_biguint(Sign::Plus, crate::conv::limbs_to_big(&self.0))
        }
    }
}
impl fmt::Display for ZGroup {
    fn fmt(&self, f: &mut fmt::Formatter) -> fmt::Result {
        write!(f, "Z({})", self.value())
    }
}
impl fmt::Display for ZAff {
    fn fmt(&self, f: &mut fmt::Formatter) -> fmt::Result {
        write!(f, "Z({})", ZGroup(self.0).value())
    }
}

impl CurveProjective for ZGroup {
    type Engine = Bls12;
    type Scalar = Fr;
    type Base = Fq;
    type Affine = ZAff;
    fn random<R: rand_core::RngCore>(_rng: &mut R) -> Self {
        ZGroup::from_i64(1)
    }
    fn zero() -> Self {
        ZGroup([0; ZL])
    }
    fn one() -> Self {
        ZGroup::from_i64(1)
    }
    fn is_zero(&self) -> bool {
        self.0.iter().all(|x| *x == 0)
    }
    fn batch_normalization(_v: &mut [Self]) {}
    fn is_normalized(&self) -> bool {
        true
    }
    fn double(&mut self) {
        self.0 = zadd(&self.0, &self.0);
    }
    fn add_assign(&mut self, other: &Self) {
        self.0 = zadd(&self.0, &other.0);
    }
    fn add_assign_mixed(&mut self, other: &Self::Affine) {
        self.0 = zadd(&self.0, &other.0);
    }
    fn negate(&mut self) {
        self.0 = zneg(&self.0);
    }
    fn mul_assign<S: Into<<Self::Scalar as PrimeField>::Repr>>(&mut self, other: S) {
        let r: FrRepr = other.into();
        self.0 = zmul_small(&self.0, &r.0);
    }
    fn into_affine(&self) -> ZAff {
        ZAff(self.0)
    }
    fn recommended_wnaf_for_scalar(_scalar: FrRepr) -> usize {
        wnaf_window()
    }
    fn recommended_wnaf_for_num_scalars(_n: usize) -> usize {
        wnaf_window()
    }
    fn as_tuple(&self) -> (&Fq, &Fq, &Fq) {
        unimplemented!("ZGroup has no coordinates")
    }
    unsafe fn as_tuple_mut(&mut self) -> (&mut Fq, &mut Fq, &mut Fq) {
        unimplemented!("ZGroup has no coordinates")
    }
}
impl From<ZAff> for ZGroup {
    fn from(a: ZAff) -> ZGroup {
        ZGroup(a.0)
    }
}
impl From<ZGroup> for ZAff {
    fn from(a: ZGroup) -> ZAff {
        ZAff(a.0)
    }
}

#[derive(Copy, Clone)]
pub struct ZEnc([u8; 1]);
impl AsRef<[u8]> for ZEnc {
    fn as_ref(&self) -> &[u8] {
        &self.0
    }
}
impl AsMut<[u8]> for ZEnc {
    fn as_mut(&mut self) -> &mut [u8] {
        &mut self.0
    }
}
impl EncodedPoint for ZEnc {
    type Affine = ZAff;
    fn empty() -> Self {
        ZEnc([0])
    }
    fn size() -> usize {
        1
    }
    fn into_affine(&self) -> Result<ZAff, GroupDecodingError> {
        Err(GroupDecodingError::NotOnCurve)
    }
    fn into_affine_unchecked(&self) -> Result<ZAff, GroupDecodingError> {
        Err(GroupDecodingError::NotOnCurve)
    }
    fn from_affine(_: ZAff) -> Self {
        ZEnc([0])
    }
}

impl CurveAffine for ZAff {
    type Engine = Bls12;
    type Scalar = Fr;
    type Base = Fq;
    type Projective = ZGroup;
    type Prepared = ();
    type Uncompressed = ZEnc;
    type Compressed = ZEnc;
    type Pair = ZAff;
    type PairingResult = Fq12;
    fn zero() -> Self {
        ZAff([0; ZL])
    }
    fn one() -> Self {
        ZGroup::from_i64(1).into_affine()
    }
    fn is_zero(&self) -> bool {
        self.0.iter().all(|x| *x == 0)
    }
    fn negate(&mut self) {
        self.0 = zneg(&self.0);
    }
    fn mul<S: Into<FrRepr>>(&self, other: S) -> ZGroup {
        let mut p = ZGroup(self.0);
        p.mul_assign(other);
        p
    }
    fn prepare(&self) {}
    fn pairing_with(&self, _other: &ZAff) -> Fq12 {
        unimplemented!()
    }
    fn into_projective(&self) -> ZGroup {
        ZGroup(self.0)
    }
    fn as_tuple(&self) -> (&Fq, &Fq) {
        unimplemented!()
    }
    unsafe fn as_tuple_mut(&mut self) -> (&mut Fq, &mut Fq) {
        unimplemented!()
    }
    fn sum_of_products(_bases: &[Self], _scalars: &[&[u64; 4]]) -> ZGroup {
        unimplemented!()
    }
    fn find_pippinger_window(_n: usize) -> usize {
        unimplemented!()
    }
    fn find_pippinger_window_via_estimate(_n: usize) -> usize {
        unimplemented!()
    }
    fn sum_of_products_pippinger(_bases: &[Self], _scalars: &[&[u64; 4]], _window: usize) -> ZGroup {
        unimplemented!()
    }
    fn sum_of_products_precomp_256(_bases: &[Self], _scalars: &[&[u64; 4]], _pre: &[Self]) -> ZGroup {
        unimplemented!()
    }
    fn precomp_3(&self, _pre: &mut [Self]) {
        unimplemented!()
    }
    fn mul_precomp_3<S: Into<FrRepr>>(&self, _other: S, _pre: &[Self]) -> ZGroup {
        unimplemented!()
    }
    fn precomp_256(&self, _pre: &mut [Self]) {
        unimplemented!()
    }
    fn mul_precomp_256<S: Into<FrRepr>>(&self, _other: S, _pre: &[Self]) -> ZGroup {
        unimplemented!()
    }
}

// ------------------------------------------------------------------------------------------------
// one-limb representation type for exhaustive wnaf_form enumeration
// ------------------------------------------------------------------------------------------------
#[derive(Copy, Clone, PartialEq, Eq, PartialOrd, Ord, Debug, Default)]
pub struct Tiny(pub [u64; 1]);
impl fmt::Display for Tiny {
    fn fmt(&self, f: &mut fmt::Formatter) -> fmt::Result {
        write!(f, "{:#x}", self.0[0])
    }
}
impl AsRef<[u64]> for Tiny {
    fn as_ref(&self) -> &[u64] {
        &self.0
    }
}
impl AsMut<[u64]> for Tiny {
    fn as_mut(&mut self) -> &mut [u64] {
        &mut self.0
    }
}
impl From<u64> for Tiny {
    fn from(v: u64) -> Tiny {
        Tiny([v])
    }
}
impl zeroize::Zeroize for Tiny {
    fn zeroize(&mut self) {
        self.0[0] = 0;
    }
}
impl PrimeFieldRepr for Tiny {
    fn sub_noborrow(&mut self, other: &Self) {
        self.0[0] = self.0[0].checked_sub(other.0[0]).expect("Tiny: borrow in sub_noborrow (precondition violated by caller)");
    }
    fn add_nocarry(&mut self, other: &Self) {
        self.0[0] = self.0[0].checked_add(other.0[0]).expect("Tiny: carry in add_nocarry (precondition violated by caller)");
    }
    fn num_bits(&self) -> u32 {
        64 - self.0[0].leading_zeros()
    }
    fn is_zero(&self) -> bool {
        self.0[0] == 0
    }
    fn is_odd(&self) -> bool {
        self.0[0] & 1 == 1
    }
    fn is_even(&self) -> bool {
        !self.is_odd()
    }
    fn div2(&mut self) {
        self.0[0] >>= 1;
    }
    fn shr(&mut self, amt: u32) {
        self.0[0] = if amt >= 64 { 0 } else { self.0[0] >> amt };
    }
    fn mul2(&mut self) {
        self.0[0] <<= 1;
    }
    fn shl(&mut self, amt: u32) {
        self.0[0] = if amt >= 64 { 0 } else { self.0[0] << amt };
    }
}
