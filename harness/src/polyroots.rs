//! Roots in a finite field of a univariate polynomial (coefficients low degree first): gcd with x^N - x, then
//! Cantor-Zassenhaus equal-degree splitting.  Every returned root is checked by evaluation.
use crate::refmodel::RF;
use num_bigint::BigUint;

type Poly<F> = Vec<F>;

fn trim<F: RF>(mut p: Poly<F>) -> Poly<F> {
    while p.last().map(|c| c.is_zero()).unwrap_or(false) {
        p.pop();
    }
    p
}
fn monic<F: RF>(p: Poly<F>) -> Poly<F> {
    let p = trim(p);
    match p.last() {
        None => p,
        Some(l) => {
            let li = l.inv().unwrap();
            p.iter().map(|c| c.mul(&li)).collect()
        }
    }
}
/// remainder of a modulo the MONIC polynomial m
fn rem<F: RF>(a: &Poly<F>, m: &Poly<F>) -> Poly<F> {
    let mut r = trim(a.clone());
    let dm = m.len() - 1;
    while r.len() > dm {
        let lead = r.last().unwrap().clone();
        let shift = r.len() - 1 - dm;
        if !lead.is_zero() {
            for i in 0..=dm {
                r[shift + i] = r[shift + i].sub(&lead.mul(&m[i]));
            }
        }
        r.pop();
        r = trim(r);
    }
    r
}
fn mulmod<F: RF>(a: &Poly<F>, b: &Poly<F>, m: &Poly<F>) -> Poly<F> {
    if a.is_empty() || b.is_empty() {
        return vec![];
    }
    let mut out = vec![F::zero(); a.len() + b.len() - 1];
    for (i, x) in a.iter().enumerate() {
        if x.is_zero() {
            continue;
        }
        for (j, y) in b.iter().enumerate() {
            out[i + j] = out[i + j].add(&x.mul(y));
        }
    }
    rem(&out, m)
}
fn powmod<F: RF>(base: &Poly<F>, e: &BigUint, m: &Poly<F>) -> Poly<F> {
    let mut res: Poly<F> = vec![F::one()];
    let b = rem(base, m);
    for i in (0..e.bits()).rev() {
        res = mulmod(&res, &res, m);
        if (e >> i) & BigUint::from(1u32) == BigUint::from(1u32) {
            res = mulmod(&res, &b, m);
        }
    }
    res
}
fn sub<F: RF>(a: &Poly<F>, b: &Poly<F>) -> Poly<F> {
    let n = a.len().max(b.len());
    let mut out = vec![F::zero(); n];
    for i in 0..n {
        let x = a.get(i).cloned().unwrap_or_else(F::zero);
        let y = b.get(i).cloned().unwrap_or_else(F::zero);
        out[i] = x.sub(&y);
    }
    trim(out)
}
fn gcd<F: RF>(a: &Poly<F>, b: &Poly<F>) -> Poly<F> {
    let (mut x, mut y) = (trim(a.clone()), trim(b.clone()));
    while !y.is_empty() {
        let ym = monic(y);
        let r = rem(&x, &ym);
        x = ym;
        y = r;
    }
    monic(x)
}
/// exact quotient a / m for monic m
fn divexact<F: RF>(a: &Poly<F>, m: &Poly<F>) -> Poly<F> {
    let mut r = trim(a.clone());
    let dm = m.len() - 1;
    if r.len() <= dm {
        return vec![];
    }
    let mut q = vec![F::zero(); r.len() - dm];
    while r.len() > dm {
        let lead = r.last().unwrap().clone();
        let shift = r.len() - 1 - dm;
        q[shift] = lead.clone();
        for i in 0..=dm {
            r[shift + i] = r[shift + i].sub(&lead.mul(&m[i]));
        }
        r.pop();
        while r.len() > dm && r.last().map(|c| c.is_zero()).unwrap_or(false) {
            r.pop();
        }
    }
    trim(q)
}
pub fn eval<F: RF>(p: &[F], x: &F) -> F {
    let mut acc = F::zero();
    for c in p.iter().rev() {
        acc = acc.mul(x).add(c);
    }
    acc
}

/// all roots of `f` in the field with `n` elements (n odd); `rand` supplies field elements for the splitting step
pub fn roots<F: RF>(f: &[F], n: &BigUint, rand: &mut dyn FnMut() -> F) -> Vec<F> {
    let f = monic(f.to_vec());
    if f.len() <= 1 {
        return vec![];
    }
    // product of the distinct linear factors
    let x: Poly<F> = vec![F::zero(), F::one()];
    let g = if f.len() == 2 { f.clone() } else { gcd(&sub(&powmod(&x, n, &f), &x), &f) };
    let mut out = vec![];
    let mut stack = vec![g];
    let half = (n - 1u32) >> 1;
    while let Some(g) = stack.pop() {
        if g.len() <= 1 {
            continue;
        }
        if g.len() == 2 {
            out.push(g[0].neg());
            continue;
        }
        let mut tries = 0;
        loop {
            tries += 1;
            assert!(tries < 200, "root splitting did not terminate");
            let a = rand();
            let w = powmod(&vec![a, F::one()], &half, &g);
            let d = gcd(&sub(&w, &vec![F::one()]), &g);
            if d.len() > 1 && d.len() < g.len() {
                let other = divexact(&g, &d);
                stack.push(d);
                stack.push(monic(other));
                break;
            }
        }
    }
    for r in &out {
        assert!(eval(&f, r).is_zero(), "root finder returned a non-root");
    }
    out
}
