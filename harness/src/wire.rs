//! Byte-string alphabets for the point wire format and uniform access to the library's codecs (C04/C05/C19).
#![allow(dead_code)]
use crate::alpha;
use crate::conv::*;
use crate::infra::{par_map, SplitMix};
use crate::points::*;
use crate::refmodel::zcash::{self, DecErr, WireField};
use crate::refmodel::*;
use num_bigint::BigUint;
use num_traits::{One, Zero};
use pairing_plus::bls12_381::{G1Affine, G1Compressed, G1Uncompressed, G2Affine, G2Compressed, G2Uncompressed};
use pairing_plus::{EncodedPoint, GroupDecodingError};
use std::collections::HashMap;
use std::sync::Mutex;

pub fn category(e: &GroupDecodingError) -> DecErr {
    match e {
        GroupDecodingError::UnexpectedCompressionMode => DecErr::Form,
        GroupDecodingError::UnexpectedInformation => DecErr::Flags,
        GroupDecodingError::CoordinateDecodingError(..) => DecErr::Range,
        GroupDecodingError::NotOnCurve => DecErr::Curve,
        GroupDecodingError::NotInSubgroup => DecErr::Subgroup,
    }
}

pub trait WireCurve: RealCurve
where
    Self::K: WireField,
{
    fn lib_decode(bytes: &[u8], compressed: bool, checked: bool) -> Result<Self::Aff, GroupDecodingError>;
    fn lib_encode(a: &Self::Aff, compressed: bool) -> Vec<u8>;
    fn points(rng: &mut SplitMix, seeded: usize, small: usize) -> Vec<NamedPt<Self::K>>;
    fn embed(k: u64) -> Self::K;
    /// coordinate pairs that are NOT on the curve but are annihilated by r under the (b-independent) group-law formulas
    fn foreign_order_r() -> Vec<(Self::K, Self::K)> {
        vec![]
    }
    /// curve points whose y has a zero component (the lexicographic order of y, -y is then decided by the
    /// other component alone): (class, x, y)
    fn tie_points() -> Vec<(&'static str, Self::K, Self::K)> {
        vec![]
    }
}
impl WireCurve for RG1 {
    fn lib_decode(bytes: &[u8], compressed: bool, checked: bool) -> Result<G1Affine, GroupDecodingError> {
        if compressed {
            let mut e = G1Compressed::empty();
            e.as_mut().copy_from_slice(bytes);
            if checked {
                e.into_affine()
            } else {
                e.into_affine_unchecked()
            }
        } else {
            let mut e = G1Uncompressed::empty();
            e.as_mut().copy_from_slice(bytes);
            if checked {
                e.into_affine()
            } else {
                e.into_affine_unchecked()
            }
        }
    }
    fn lib_encode(a: &G1Affine, compressed: bool) -> Vec<u8> {
        if compressed {
            G1Compressed::from_affine(*a).as_ref().to_vec()
        } else {
            G1Uncompressed::from_affine(*a).as_ref().to_vec()
        }
    }
    fn points(rng: &mut SplitMix, seeded: usize, small: usize) -> Vec<NamedPt<Q1>> {
        g1_points(rng, seeded, small)
    }
    fn embed(k: u64) -> Q1 {
        Q1::from_u64(k)
    }
}
impl WireCurve for RG2 {
    fn lib_decode(bytes: &[u8], compressed: bool, checked: bool) -> Result<G2Affine, GroupDecodingError> {
        if compressed {
            let mut e = G2Compressed::empty();
            e.as_mut().copy_from_slice(bytes);
            if checked {
                e.into_affine()
            } else {
                e.into_affine_unchecked()
            }
        } else {
            let mut e = G2Uncompressed::empty();
            e.as_mut().copy_from_slice(bytes);
            if checked {
                e.into_affine()
            } else {
                e.into_affine_unchecked()
            }
        }
    }
    fn lib_encode(a: &G2Affine, compressed: bool) -> Vec<u8> {
        if compressed {
            G2Compressed::from_affine(*a).as_ref().to_vec()
        } else {
            G2Uncompressed::from_affine(*a).as_ref().to_vec()
        }
    }
    fn points(rng: &mut SplitMix, seeded: usize, small: usize) -> Vec<NamedPt<Q2>> {
        g2_points(rng, seeded, small)
    }
    fn embed(k: u64) -> Q2 {
        q2u(k, 1)
    }
    fn foreign_order_r() -> Vec<(Q2, Q2)> {
        // the G1 generator embedded in Fq2: on y^2 = x^3 + 4, not on the G2 curve, of order r
        match g1_gen() {
            Pt::Aff(x, y) => vec![(Q2::new(vec![x, Q1::zero()]), Q2::new(vec![y, Q1::zero()]))],
            _ => vec![],
        }
    }
    fn tie_points() -> Vec<(&'static str, Q2, Q2)> {
        // x = a + b u with Im(x^3) = 3a^2 b - b^3 = -4, so that x^3 + 4(1+u) lies in Fq; then y is in Fq or in u*Fq
        let c = e2();
        let mut out = vec![];
        let (mut n_real, mut n_imag) = (0, 0);
        let mut b = 1u64;
        while (n_real < 3 || n_imag < 3) && b < 400 {
            let bb = Q1::from_u64(b);
            let a2 = bb.sq().mul(&bb).sub(&Q1::from_u64(4)).mul(&Q1::from_u64(3).mul(&bb).inv().unwrap());
            if let Some(a) = a2.sqrt() {
                for a in [a.clone(), a.neg()] {
                    let x = Q2::new(vec![a.clone(), bb.clone()]);
                    let rhs = c.rhs(&x);
                    assert!(rhs.c(1).is_zero(), "tie point construction: right-hand side not in Fq");
                    let real = rhs.c(0).clone();
                    if let Some(y0) = real.sqrt() {
                        if n_real < 3 {
                            n_real += 1;
                            out.push(("y in the base field (order of y, -y decided by c0)", x, Q2::new(vec![y0, Q1::zero()])));
                        }
                    } else if let Some(y1) = real.neg().sqrt() {
                        if n_imag < 3 {
                            n_imag += 1;
                            out.push(("y purely imaginary (c0 = 0)", x, Q2::new(vec![Q1::zero(), y1])));
                        }
                    }
                }
            }
            b += 1;
        }
        for (_, x, y) in &out {
            assert!(c.on_curve(&Pt::Aff(x.clone(), y.clone())));
        }
        out
    }
}

/// memoised reference subgroup test [r]P = O
pub struct Membership<F: RF> {
    c: Curve<F>,
    cache: Mutex<HashMap<Pt<F>, bool>>,
}
impl<F: RF> Membership<F> {
    pub fn new(c: Curve<F>) -> Self {
        Membership { c, cache: Mutex::new(HashMap::new()) }
    }
    pub fn preload(&self, pts: &[NamedPt<F>]) {
        let mut m = self.cache.lock().unwrap();
        for p in pts {
            m.insert(p.p.clone(), p.in_subgroup);
            m.insert(self.c.neg(&p.p), p.in_subgroup);
        }
    }
    pub fn test(&self, p: &Pt<F>) -> bool {
        if let Some(v) = self.cache.lock().unwrap().get(p) {
            return *v;
        }
        let v = self.c.mul(p, r()).is_inf();
        self.cache.lock().unwrap().insert(p.clone(), v);
        v
    }
}

#[derive(Clone)]
pub struct WireCase {
    pub bytes: Vec<u8>,
    pub class: &'static str,
}

fn be48(x: &BigUint) -> Vec<u8> {
    let b = x.to_bytes_be();
    assert!(b.len() <= 48);
    let mut v = vec![0u8; 48 - b.len()];
    v.extend_from_slice(&b);
    v
}
fn bytes_of(comps: &[BigUint]) -> Vec<u8> {
    comps.iter().flat_map(be48).collect()
}

/// structured byte strings for one format.  Returns (cases, alphabet points)
pub fn wire_alphabet<C: WireCurve>(rng: &mut SplitMix, compressed: bool, quick: bool, n_random: usize) -> (Vec<WireCase>, Vec<NamedPt<C::K>>)
where
    C::K: WireField,
{
    let c = C::curve();
    let m = <C::K as WireField>::M;
    let q = q();
    let pts = C::points(rng, if quick { 2 } else { 4 }, if quick { 2 } else { 4 });
    let top381 = alpha::pow2(381) - 1u32;
    // x-coordinate cases: (class, wire components)
    let mut xs: Vec<(&'static str, Vec<BigUint>, Option<C::K>)> = vec![];
    for np in &pts {
        if let Pt::Aff(x, y) = &np.p {
            let cls: &'static str = if np.in_subgroup { "x of a subgroup point" } else { "x of a curve point outside the subgroup" };
            xs.push((cls, x.to_wire(), Some(y.clone())));
        }
    }
    // x = 0, 1 and x with / without a square root, by counting
    let mut k = 0u64;
    let (mut nroot, mut nnoroot) = (0, 0);
    let want = if quick { 3 } else { 8 };
    while nroot < want || nnoroot < want {
        let x = C::embed(k);
        k += 1;
        match c.rhs(&x).wsqrt() {
            Some(y) if nroot < want => {
                nroot += 1;
                xs.push(("small x with a square root (full-curve point)", x.to_wire(), Some(y)));
            }
            None if nnoroot < want => {
                nnoroot += 1;
                xs.push(("x without a square root", x.to_wire(), None));
            }
            _ => {}
        }
    }
    // off-curve pairs of order r: subgroup points scaled onto the isomorphic curves y^2 = x^3 + b u^6, and
    // points of order r of other curves over the same field
    {
        let mut foreign: Vec<(C::K, C::K)> = C::foreign_order_r();
        if let Pt::Aff(x, y) = &pts[1].p {
            for k in [2u64, 3] {
                let u = C::embed(k);
                foreign.push((x.mul(&u.sq()), y.mul(&u.sq().mul(&u))));
            }
        }
        for (x, y) in foreign {
            if !c.on_curve(&Pt::Aff(x.clone(), y.clone())) {
                xs.push(("off-curve pair annihilated by r (order-r point of another curve)", x.to_wire(), Some(y)));
            }
        }
    }
    for (cls, x, y) in C::tie_points() {
        xs.push((cls, x.to_wire(), Some(y.clone())));
        xs.push((cls, x.to_wire(), Some(y.neg())));
    }
    if m == 2 {
        // x = 0 and x in Fq
        for v in [C::K::zero(), C::K::one()] {
            let y = c.rhs(&v).wsqrt();
            xs.push((if y.is_some() { "x in the base field with a root" } else { "x in the base field without a root" }, v.to_wire(), y));
        }
    }
    for _ in 0..(if quick { 4 } else { 16 }) {
        // seeded x
        let comps: Vec<BigUint> = (0..m).map(|_| alpha::rand_below(rng, q)).collect();
        let x = <C::K as WireField>::from_wire(&comps).unwrap();
        let y = c.rhs(&x).wsqrt();
        xs.push((if y.is_some() { "seeded x with a root" } else { "seeded x without a root" }, comps, y));
    }
    // out-of-range components, each position separately (others taken from the generator)
    let gx = match &pts[1].p {
        Pt::Aff(x, _) => x.to_wire(),
        _ => unreachable!(),
    };
    let gy = match &pts[1].p {
        Pt::Aff(_, y) => y.clone(),
        _ => unreachable!(),
    };
    for pos in 0..m {
        for (cls, v) in [("x component = q-1 (in range)", q - 1u32), ("x component = q (out of range)", q.clone()), ("x component = q+1 (out of range)", q + 1u32), ("x component = 2^381-1 (out of range)", top381.clone())] {
            let mut comps = gx.clone();
            comps[pos] = v;
            let y = <C::K as WireField>::from_wire(&comps).and_then(|x| c.rhs(&x).wsqrt());
            xs.push((cls, comps, y));
        }
    }
    // a later 48-byte component with its top three bits set (value >= 2^381): only the FIRST byte of the encoding
    // carries flags, everywhere else these bits belong to the integer and make it out of range
    let mut late: Vec<(Vec<BigUint>, Option<Vec<BigUint>>)> = vec![];
    for pos in 1..m {
        for topbits in [0x80u32, 0x40, 0x20, 0xe0] {
            let mut comps = gx.clone();
            comps[pos] = &comps[pos] + (BigUint::from(topbits) << 376);
            late.push((comps, None));
        }
    }
    if !compressed {
        for pos in 0..m {
            for topbits in [0x80u32, 0x40, 0x20, 0xe0] {
                let mut yc = gy.to_wire();
                yc[pos] = &yc[pos] + (BigUint::from(topbits) << 376);
                late.push((gx.clone(), Some(yc)));
            }
        }
    }
    let mut cases: Vec<WireCase> = vec![];
    let mut push_flags = |body: Vec<u8>, class: &'static str, cases: &mut Vec<WireCase>| {
        for f in 0u8..8 {
            let mut b = body.clone();
            b[0] = (b[0] & 0x1f) | (f << 5);
            cases.push(WireCase { bytes: b, class });
        }
    };
    for (cls, comps, y) in &xs {
        if compressed {
            push_flags(bytes_of(comps), cls, &mut cases);
        } else {
            // y variants
            let mut ys: Vec<(&'static str, Vec<BigUint>)> = vec![];
            match y {
                Some(y) => {
                    ys.push((cls, y.to_wire()));
                    ys.push((cls, y.neg().to_wire()));
                    ys.push(("y+1 (off curve)", y.add(&C::K::one()).to_wire()));
                }
                None => {
                    ys.push((cls, gy.to_wire()));
                }
            }
            let base_y = ys[0].1.clone();
            for pos in 0..m {
                for (c2, v) in [("y component = q (out of range)", q.clone()), ("y component = 2^381-1 (out of range)", top381.clone())] {
                    let mut yy = base_y.clone();
                    yy[pos] = v;
                    ys.push((c2, yy));
                }
            }
            for (c2, yc) in ys {
                let mut body = bytes_of(comps);
                body.extend(bytes_of(&yc));
                push_flags(body, c2, &mut cases);
            }
        }
    }
    for (xc, yc) in &late {
        let mut body = bytes_of(xc);
        if !compressed {
            body.extend(bytes_of(&yc.clone().unwrap_or_else(|| gy.to_wire())));
        }
        push_flags(body, "flag-like top bits set in a later component (value >= 2^381)", &mut cases);
    }
    // infinity encodings: canonical, with the sort flag, with every single non-zero byte position
    let len = zcash::enc_len::<C::K>(compressed);
    let mut inf = vec![0u8; len];
    inf[0] = 0x40 | if compressed { 0x80 } else { 0 };
    cases.push(WireCase { bytes: inf.clone(), class: "canonical infinity" });
    let mut wrong = inf.clone();
    wrong[0] ^= 0x80;
    cases.push(WireCase { bytes: wrong, class: "infinity with the wrong compression flag" });
    let mut s = inf.clone();
    s[0] |= 0x20;
    cases.push(WireCase { bytes: s, class: "infinity with the sort flag" });
    for pos in 0..len {
        for v in [0x01u8, 0x80, 0x10] {
            if pos == 0 && v == 0x80 {
                continue;
            }
            let mut b = inf.clone();
            b[pos] |= v;
            if b != inf {
                cases.push(WireCase { bytes: b, class: "infinity flag with a non-zero byte" });
            }
        }
    }
    // several non-zero bytes whose XOR / sum cancels, equal bytes, all-ones body
    for (i, j) in [(1usize, 2usize), (1, len - 1), (len / 2, len / 2 + 1), (len - 2, len - 1), (5, 40)] {
        for v in [0x01u8, 0x5a, 0xff] {
            let mut b = inf.clone();
            b[i] = v;
            b[j] = v;
            cases.push(WireCase { bytes: b, class: "infinity flag with several non-zero bytes" });
        }
        let mut b = inf.clone();
        b[i] = 0x01;
        b[j] = 0x02;
        b[(i + j) / 2 + 1] = 0x03;
        cases.push(WireCase { bytes: b, class: "infinity flag with several non-zero bytes" });
        let mut b = inf.clone();
        b[i] = 0x80;
        b[j] = 0x80;
        cases.push(WireCase { bytes: b, class: "infinity flag with several non-zero bytes" });
    }
    let mut b = vec![0xffu8; len];
    b[0] = inf[0] | 0x1f;
    cases.push(WireCase { bytes: b.clone(), class: "infinity flag with several non-zero bytes" });
    b[0] = inf[0];
    cases.push(WireCase { bytes: b, class: "infinity flag with several non-zero bytes" });
    for _ in 0..n_random {
        let b: Vec<u8> = (0..len).map(|_| rng.next() as u8).collect();
        cases.push(WireCase { bytes: b, class: "uniformly random bytes" });
    }
    // random body under each flag combination that gets past the flag checks more often
    for _ in 0..(n_random / 4) {
        let mut b: Vec<u8> = (0..len).map(|_| rng.next() as u8).collect();
        b[0] = (b[0] & 0x1f) | if compressed { 0x80 | ((rng.next() as u8) & 0x20) } else { 0 };
        // keep the value below q most of the time
        b[0] &= 0xef | 0x80 | 0x20;
        cases.push(WireCase { bytes: b, class: "random body with plausible flags" });
    }
    let _ = BigUint::one();
    let _ = par_map(0, |_| ());
    let mut seen = std::collections::HashSet::new();
    cases.retain(|c| seen.insert(c.bytes.clone()));
    (cases, pts)
}
