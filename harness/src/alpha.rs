//! Shared alphabets (DESIGN.md §2/M3): one member per decision the anchored code can make, boundary
//! integers, and a seed-dependent tail.  Everything is deduplicated so cross products are duplicate-free.
#![allow(dead_code)]
use crate::infra::SplitMix;
use num_bigint::BigUint;
use num_traits::{One, Zero};
use std::collections::HashSet;

pub fn dedup(v: Vec<BigUint>) -> Vec<BigUint> {
    let mut seen = HashSet::new();
    let mut out = vec![];
    for x in v {
        if seen.insert(x.clone()) {
            out.push(x);
        }
    }
    out
}

pub fn pow2(k: usize) -> BigUint {
    BigUint::one() << k
}

pub fn rand_bits(rng: &mut SplitMix, bits: usize) -> BigUint {
    let words = (bits + 63) / 64;
    let mut bytes = vec![];
    for _ in 0..words {
        bytes.extend_from_slice(&rng.next().to_le_bytes());
    }
    let x = BigUint::from_bytes_le(&bytes);
    x & (pow2(bits) - 1u32)
}

pub fn rand_below(rng: &mut SplitMix, p: &BigUint) -> BigUint {
    rand_bits(rng, p.bits() + 64) % p
}

/// Field-value alphabet for Z/p with `limbs` 64-bit limbs (all members reduced mod p).
pub fn field_values(p: &BigUint, limbs: usize, rng: &mut SplitMix, seeded: usize) -> Vec<BigUint> {
    let mut v: Vec<BigUint> = vec![];
    for k in 0u32..4 {
        v.push(BigUint::from(k));
    }
    for k in 1u32..4 {
        v.push(p - k);
    }
    v.push((p - 1u32) >> 1);
    v.push((p + 1u32) >> 1);
    let bits = p.bits();
    for l in 1..=limbs {
        let k = 64 * l;
        for d in [k - 1, k, k + 1] {
            if d < bits {
                v.push(pow2(d));
                v.push(pow2(d) - 1u32);
                v.push(pow2(d) + 1u32);
            }
        }
    }
    v.push(pow2(bits - 1));
    v.push(pow2(bits - 1) - 1u32);
    v.push(pow2(bits - 1) + 1u32);
    // Montgomery radix and friends
    let rr = pow2(64 * limbs) % p;
    v.push(rr.clone());
    v.push((&rr * &rr) % p);
    v.push((&rr + p - 1u32) % p);
    v.push(rr.modpow(&(p - 2u32), p));
    // a zero limb / an all-ones limb in each position
    let allones = pow2(64 * limbs) - 1u32;
    for l in 0..limbs {
        let mask = BigUint::from(u64::MAX) << (64 * l);
        let zero_limb = &allones ^ &mask;
        v.push(zero_limb % p);
        v.push(mask % p);
    }
    for _ in 0..seeded {
        v.push(rand_below(rng, p));
    }
    dedup(v.into_iter().map(|x| x % p).collect())
}

/// Raw integer alphabet for a `limbs`-limb representation type (values need not be below any modulus).
pub fn repr_values(p: &BigUint, limbs: usize, rng: &mut SplitMix, seeded: usize) -> Vec<BigUint> {
    let bits = 64 * limbs;
    let full = pow2(bits);
    let mut v: Vec<BigUint> = vec![];
    for k in 0u32..4 {
        v.push(BigUint::from(k));
    }
    v.push(p - 1u32);
    v.push(p.clone());
    v.push(p + 1u32);
    v.push((p << 1) % &full);
    v.push(&full - 1u32);
    v.push(&full - 2u32);
    v.push(pow2(bits - 1));
    v.push(pow2(bits - 1) - 1u32);
    v.push(pow2(bits - 1) + 1u32);
    for l in 1..limbs {
        let k = 64 * l;
        v.push(pow2(k));
        v.push(pow2(k) - 1u32);
        v.push(pow2(k) + 1u32);
        v.push(pow2(k - 1));
    }
    let allones = &full - 1u32;
    for l in 0..limbs {
        let mask = BigUint::from(u64::MAX) << (64 * l);
        v.push(&allones ^ &mask);
        v.push(mask);
        v.push(BigUint::from(0x8000000000000001u64) << (64 * l));
    }
    for _ in 0..seeded {
        v.push(rand_bits(rng, bits));
        let b = 1 + (rng.below(bits as u64) as usize);
        v.push(rand_bits(rng, b));
    }
    dedup(v.into_iter().map(|x| x % &full).collect())
}

/// 256-bit scalar alphabet for scalar-multiplication paths (DESIGN C02): specials around r and 2^255,
/// per-word / per-chunk masks; single bits and pairs are enumerated separately.
pub fn scalar_specials(r: &BigUint) -> Vec<BigUint> {
    let mut v: Vec<BigUint> = vec![];
    for k in 0u32..4 {
        v.push(BigUint::from(k));
    }
    v.push(r - 2u32);
    v.push(r - 1u32);
    v.push(r.clone());
    v.push(r + 1u32);
    v.push((r << 1) % pow2(256));
    v.push(pow2(255) - 1u32);
    v.push(pow2(255));
    v.push(pow2(255) + 1u32);
    v.push(pow2(256) - 1u32);
    for w in 0..4 {
        v.push(BigUint::from(u64::MAX) << (64 * w));
    }
    for c in 0..8 {
        v.push(BigUint::from(u32::MAX) << (32 * c));
    }
    dedup(v)
}

pub fn is_zero(x: &BigUint) -> bool {
    x.is_zero()
}

/// In-memory (Montgomery) residues with LIMB PATTERNS, for a prime p of `limbs` 64-bit limbs: every limb is 0, 2^64-1 or
/// the corresponding limb of p, in at most `runs` runs (X..X Y..Y Z..Z from the low limb up); with `variants`, also each
/// such residue +1 and -1.  Hand-written carry / borrow chains, comparisons that look at some limbs only and lazy
/// reductions go wrong where a limb is saturated, equals the modulus limb or equals the other operand's limb while a
/// carry or borrow arrives from below - on random elements that has probability 2^-64 per limb.  Only residues < p.
pub fn limb_pattern_residues(p: &BigUint, limbs: usize, runs: usize, variants: bool) -> Vec<BigUint> {
    let max = pow2(64) - 1u32;
    let plimb = |i: usize| (p >> (64 * i)) & &max;
    let choice = |c: usize, i: usize| -> BigUint {
        match c {
            0 => BigUint::zero(),
            1 => max.clone(),
            _ => plimb(i),
        }
    };
    let mut out = vec![];
    // run boundaries 0 < b1 <= b2 <= limbs
    for b1 in 1..=limbs {
        for b2 in b1..=limbs {
            if runs < 3 && b2 != limbs {
                continue;
            }
            for x in 0..3 {
                for y in 0..3 {
                    for z in 0..3 {
                        if runs < 2 && b1 != limbs {
                            continue;
                        }
                        let mut m = BigUint::zero();
                        for i in 0..limbs {
                            let c = if i < b1 { x } else if i < b2 { y } else { z };
                            m += choice(c, i) << (64 * i);
                        }
                        if &m < p {
                            out.push(m.clone());
                        }
                        if variants {
                            if &(&m + 1u32) < p {
                                out.push(&m + 1u32);
                            }
                            if !m.is_zero() && &(&m - 1u32) < p {
                                out.push(&m - 1u32);
                            }
                        }
                    }
                }
            }
        }
    }
    // limbs that REPEAT or cancel one another (a, a, 0, ...), (a, b, a^b, 0, ...), (a, a, ..., a), (0, b, 0, 0, b, ...): a fold
    // over the limbs with the wrong operator (xor / sum / and instead of or) cannot tell these from zero
    for a in [5u64, 0x0123_4567_89ab_cdef, 1u64 << 63, u64::MAX] {
        let b = a.rotate_left(17) ^ 0x5555;
        let pats: Vec<Vec<u64>> = vec![
            vec![a, a],
            vec![0, a, a],
            vec![a, b, a ^ b],
            vec![a, a.wrapping_neg()],
            vec![0, b, 0, b],
            vec![a; limbs],
            (0..limbs).map(|i| if i == 0 || i + 2 == limbs { a } else { 0 }).collect(),
        ];
        for pat in pats {
            let mut m = BigUint::zero();
            for (i, l) in pat.iter().enumerate().take(limbs) {
                m += BigUint::from(*l) << (64 * i);
            }
            // keep the pattern in the low limbs if the full width is not below p
            let m = if &m < p { m } else { &m & &(pow2(64 * (limbs - 1)) - 1u32) };
            if &m < p {
                out.push(m);
            }
        }
    }
    dedup(out)
}

/// the field VALUES whose Montgomery residue (value * 2^(64 limbs) mod p) is the given residue
pub fn values_of_residues(p: &BigUint, limbs: usize, residues: &[BigUint]) -> Vec<BigUint> {
    let rinv = crate::refmodel::modinv(&(pow2(64 * limbs) % p), p).expect("R invertible");
    residues.iter().map(|m| (m * &rinv) % p).collect()
}
