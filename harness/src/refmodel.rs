//! Independent reference model on big integers (DESIGN.md §3.2).  Deliberately boring: schoolbook
//! arithmetic, textbook formulas, self-certifying inverses and roots.  Nothing here calls the subject.
#![allow(dead_code)]
use num_bigint::{BigInt, BigUint, Sign};
use num_traits::{One, Zero};
use std::fmt::Debug;
use std::hash::Hash;
use std::marker::PhantomData;
use std::sync::OnceLock;

pub fn big(s: &str) -> BigUint {
    let s = s.trim_start_matches("0x");
    BigUint::parse_bytes(s.as_bytes(), 16).expect("hex literal")
}
pub fn bigdec(s: &str) -> BigUint {
    BigUint::parse_bytes(s.as_bytes(), 10).expect("dec literal")
}
pub fn bu(n: u64) -> BigUint {
    BigUint::from(n)
}
pub fn hex(x: &BigUint) -> String {
    format!("0x{}", x.to_str_radix(16))
}

/// |x| for BLS12-381; x = -BLS_X_ABS
pub const BLS_X_ABS: u64 = 0xd201000000010000;

pub struct Params {
    pub q: BigUint,
    pub r: BigUint,
    pub h1: BigUint,
    pub h2: BigUint,
    pub h_eff_g1: BigUint,
    pub h_eff_g2: BigUint,
}

pub fn params() -> &'static Params {
    static P: OnceLock<Params> = OnceLock::new();
    P.get_or_init(|| {
        // all derived from the BLS parameter x = -0xd201000000010000
        let x = -BigInt::from(BLS_X_ABS);
        let one = BigInt::one();
        let x2 = &x * &x;
        let x4 = &x2 * &x2;
        let r = &x4 - &x2 + &one;
        let xm1 = &x - &one;
        let q = (&xm1 * &xm1 * &r) / BigInt::from(3) + &x;
        let h1 = (&xm1 * &xm1) / BigInt::from(3);
        // h2 = (x^8 - 4x^7 + 5x^6 - 4x^4 + 6x^3 - 4x^2 - 4x + 13) / 9
        let x3 = &x2 * &x;
        let x6 = &x3 * &x3;
        let x7 = &x6 * &x;
        let x8 = &x4 * &x4;
        let h2 = (&x8 - BigInt::from(4) * &x7 + BigInt::from(5) * &x6 - BigInt::from(4) * &x4 + BigInt::from(6) * &x3
            - BigInt::from(4) * &x2
            - BigInt::from(4) * &x
            + BigInt::from(13))
            / BigInt::from(9);
        let h_eff_g1 = &one - &x;
        let h_eff_g2 = BigInt::from(3) * (&x2 - &one) * &h2;
        let u = |b: BigInt| -> BigUint {
            assert!(b.sign() != Sign::Minus);
            b.to_biguint().unwrap()
        };
        Params { q: u(q), r: u(r), h1: u(h1), h2: u(h2), h_eff_g1: u(h_eff_g1), h_eff_g2: u(h_eff_g2) }
    })
}
pub fn q() -> &'static BigUint {
    &params().q
}
pub fn r() -> &'static BigUint {
    &params().r
}

// ---------------------------------------------------------------------------------------------
// field trait
// ---------------------------------------------------------------------------------------------
pub trait RF: Clone + PartialEq + Eq + Hash + Debug + Send + Sync + 'static {
    fn zero() -> Self;
    fn one() -> Self;
    fn is_zero(&self) -> bool;
    fn add(&self, o: &Self) -> Self;
    fn sub(&self, o: &Self) -> Self;
    fn mul(&self, o: &Self) -> Self;
    fn neg(&self) -> Self;
    fn inv(&self) -> Option<Self>;
    fn sq(&self) -> Self {
        self.mul(self)
    }
    fn dbl(&self) -> Self {
        self.add(self)
    }
    fn from_u64(n: u64) -> Self;
    fn pow(&self, e: &BigUint) -> Self {
        let mut res = Self::one();
        let bits = e.bits();
        for i in (0..bits).rev() {
            res = res.sq();
            if bit(e, i) {
                res = res.mul(self);
            }
        }
        res
    }
    fn div(&self, o: &Self) -> Self {
        self.mul(&o.inv().expect("division by zero in reference model"))
    }
    /// RFC 9380 inv0
    fn inv0(&self) -> Self {
        self.inv().unwrap_or_else(Self::zero)
    }
}

/// modular inverse by the extended Euclidean algorithm (None if not coprime); self-certified
pub fn modinv(a: &BigUint, m: &BigUint) -> Option<BigUint> {
    let (mut r0, mut r1) = (BigInt::from(m.clone()), BigInt::from(a.clone() % m));
    let (mut t0, mut t1) = (BigInt::zero(), BigInt::one());
    while !r1.is_zero() {
        let q = &r0 / &r1;
        let r2 = &r0 - &q * &r1;
        r0 = r1;
        r1 = r2;
        let t2 = &t0 - &q * &t1;
        t0 = t1;
        t1 = t2;
    }
    if !r0.is_one() {
        return None;
    }
    let mi = BigInt::from(m.clone());
    let t = ((t0 % &mi) + &mi) % &mi;
    let inv = t.to_biguint().unwrap();
    assert!(((a * &inv) % m).is_one(), "modinv failed self-certification");
    Some(inv)
}

pub fn bit(e: &BigUint, i: usize) -> bool {
    ((e >> i) & BigUint::one()) == BigUint::one()
}

pub trait Modulus: Clone + PartialEq + Eq + Hash + Debug + Send + Sync + 'static {
    fn m() -> &'static BigUint;
}
#[derive(Clone, PartialEq, Eq, Hash, Debug)]
pub struct MQ;
#[derive(Clone, PartialEq, Eq, Hash, Debug)]
pub struct MR;
impl Modulus for MQ {
    fn m() -> &'static BigUint {
        q()
    }
}
impl Modulus for MR {
    fn m() -> &'static BigUint {
        r()
    }
}

#[derive(Clone, PartialEq, Eq, Hash)]
pub struct Zp<M: Modulus>(pub BigUint, PhantomData<M>);
impl<M: Modulus> Debug for Zp<M> {
    fn fmt(&self, f: &mut std::fmt::Formatter) -> std::fmt::Result {
        write!(f, "0x{}", self.0.to_str_radix(16))
    }
}
impl<M: Modulus> Zp<M> {
    pub fn new(x: BigUint) -> Self {
        Zp(x % M::m(), PhantomData)
    }
    pub fn new_ref(x: &BigUint) -> Self {
        Zp(x % M::m(), PhantomData)
    }
    pub fn int(&self) -> &BigUint {
        &self.0
    }
    /// Euler criterion: 0 -> 0, residue -> 1, non-residue -> -1
    pub fn euler(&self) -> i32 {
        if self.0.is_zero() {
            return 0;
        }
        let e = (M::m() - 1u32) >> 1;
        let t = self.0.modpow(&e, M::m());
        if t.is_one() {
            1
        } else {
            assert_eq!(t, M::m() - 1u32, "Euler criterion gave neither 1 nor -1");
            -1
        }
    }
    pub fn is_square(&self) -> bool {
        self.euler() >= 0
    }
    /// some square root, by Tonelli-Shanks (works for both q = 3 mod 4 and r with 2-adicity 32),
    /// self-certified.
    pub fn sqrt(&self) -> Option<Self> {
        if self.0.is_zero() {
            return Some(Self::zero());
        }
        if self.euler() != 1 {
            return None;
        }
        let p = M::m();
        let one = BigUint::one();
        // p - 1 = t * 2^s
        let mut t = p - &one;
        let mut s = 0u32;
        while !bit(&t, 0) {
            t >>= 1;
            s += 1;
        }
        // find a non-residue
        let mut z = BigUint::from(2u32);
        loop {
            if Zp::<M>::new_ref(&z).euler() == -1 {
                break;
            }
            z += 1u32;
        }
        let mut m = s;
        let mut c = z.modpow(&t, p);
        let mut tt = self.0.modpow(&t, p);
        let mut rr = self.0.modpow(&((&t + &one) >> 1), p);
        while !tt.is_one() {
            // least i with tt^(2^i) = 1
            let mut i = 0u32;
            let mut t2 = tt.clone();
            while !t2.is_one() {
                t2 = (&t2 * &t2) % p;
                i += 1;
            }
            let mut b = c.clone();
            for _ in 0..(m - i - 1) {
                b = (&b * &b) % p;
            }
            m = i;
            c = (&b * &b) % p;
            tt = (&tt * &c) % p;
            rr = (&rr * &b) % p;
        }
        let root = Zp::<M>::new(rr);
        assert_eq!(root.sq(), *self, "reference sqrt failed self-certification");
        Some(root)
    }
    pub fn sgn0(&self) -> u8 {
        if bit(&self.0, 0) {
            1
        } else {
            0
        }
    }
}
impl<M: Modulus> RF for Zp<M> {
    fn zero() -> Self {
        Zp(BigUint::zero(), PhantomData)
    }
    fn one() -> Self {
        Zp(BigUint::one(), PhantomData)
    }
    fn is_zero(&self) -> bool {
        self.0.is_zero()
    }
    fn add(&self, o: &Self) -> Self {
        Zp((&self.0 + &o.0) % M::m(), PhantomData)
    }
    fn sub(&self, o: &Self) -> Self {
        Zp((&self.0 + M::m() - &o.0) % M::m(), PhantomData)
    }
    fn mul(&self, o: &Self) -> Self {
        Zp((&self.0 * &o.0) % M::m(), PhantomData)
    }
    fn neg(&self) -> Self {
        Zp((M::m() - &self.0) % M::m(), PhantomData)
    }
    fn inv(&self) -> Option<Self> {
        if self.0.is_zero() {
            return None;
        }
        let e = M::m() - 2u32;
        let i = Zp(self.0.modpow(&e, M::m()), PhantomData);
        assert!(self.mul(&i) == Self::one(), "reference inverse failed self-certification");
        Some(i)
    }
    fn from_u64(n: u64) -> Self {
        Self::new(BigUint::from(n))
    }
}

pub type Q1 = Zp<MQ>;
pub type Rs = Zp<MR>;

// ---------------------------------------------------------------------------------------------
// polynomial quotient extensions  B[x]/(x^D - nr)
// ---------------------------------------------------------------------------------------------
pub trait ExtCfg: Clone + PartialEq + Eq + Hash + Debug + Send + Sync + 'static {
    type B: RF;
    const D: usize;
    fn nr() -> Self::B;
}
#[derive(Clone, PartialEq, Eq, Hash)]
pub struct Ext<C: ExtCfg>(pub Vec<C::B>, PhantomData<C>);
impl<C: ExtCfg> Debug for Ext<C> {
    fn fmt(&self, f: &mut std::fmt::Formatter) -> std::fmt::Result {
        write!(f, "{:?}", self.0)
    }
}
impl<C: ExtCfg> Ext<C> {
    pub fn new(v: Vec<C::B>) -> Self {
        assert_eq!(v.len(), C::D);
        Ext(v, PhantomData)
    }
    pub fn c(&self, i: usize) -> &C::B {
        &self.0[i]
    }
    pub fn embed(b: C::B) -> Self {
        let mut v = vec![C::B::zero(); C::D];
        v[0] = b;
        Ext(v, PhantomData)
    }
    /// the adjoined generator x
    pub fn gen() -> Self {
        let mut v = vec![C::B::zero(); C::D];
        v[1] = C::B::one();
        Ext(v, PhantomData)
    }
    pub fn scale(&self, b: &C::B) -> Self {
        Ext(self.0.iter().map(|c| c.mul(b)).collect(), PhantomData)
    }
}
impl<C: ExtCfg> RF for Ext<C> {
    fn zero() -> Self {
        Ext(vec![C::B::zero(); C::D], PhantomData)
    }
    fn one() -> Self {
        Self::embed(C::B::one())
    }
    fn is_zero(&self) -> bool {
        self.0.iter().all(|c| c.is_zero())
    }
    fn add(&self, o: &Self) -> Self {
        Ext(self.0.iter().zip(&o.0).map(|(a, b)| a.add(b)).collect(), PhantomData)
    }
    fn sub(&self, o: &Self) -> Self {
        Ext(self.0.iter().zip(&o.0).map(|(a, b)| a.sub(b)).collect(), PhantomData)
    }
    fn neg(&self) -> Self {
        Ext(self.0.iter().map(|a| a.neg()).collect(), PhantomData)
    }
    fn mul(&self, o: &Self) -> Self {
        let d = C::D;
        let mut prod = vec![C::B::zero(); 2 * d - 1];
        for i in 0..d {
            if self.0[i].is_zero() {
                continue;
            }
            for j in 0..d {
                prod[i + j] = prod[i + j].add(&self.0[i].mul(&o.0[j]));
            }
        }
        let nr = C::nr();
        for k in (d..2 * d - 1).rev() {
            let t = prod[k].mul(&nr);
            prod[k - d] = prod[k - d].add(&t);
        }
        prod.truncate(d);
        Ext(prod, PhantomData)
    }
    fn inv(&self) -> Option<Self> {
        if self.is_zero() {
            return None;
        }
        let nr = C::nr();
        let res = match C::D {
            2 => {
                let a0 = &self.0[0];
                let a1 = &self.0[1];
                let n = a0.sq().sub(&nr.mul(&a1.sq()));
                let ni = n.inv().expect("norm of non-zero element is zero: modulus not irreducible?");
                Ext(vec![a0.mul(&ni), a1.neg().mul(&ni)], PhantomData)
            }
            3 => {
                let (a, b, c) = (&self.0[0], &self.0[1], &self.0[2]);
                let aa = a.sq().sub(&nr.mul(&b.mul(c)));
                let bb = nr.mul(&c.sq()).sub(&a.mul(b));
                let cc = b.sq().sub(&a.mul(c));
                let f = a.mul(&aa).add(&nr.mul(&c.mul(&bb).add(&b.mul(&cc))));
                let fi = f.inv().expect("norm of non-zero element is zero: modulus not irreducible?");
                Ext(vec![aa.mul(&fi), bb.mul(&fi), cc.mul(&fi)], PhantomData)
            }
            _ => unreachable!(),
        };
        assert!(self.mul(&res) == Self::one(), "reference extension inverse failed self-certification");
        Some(res)
    }
    fn from_u64(n: u64) -> Self {
        Self::embed(C::B::from_u64(n))
    }
}

#[derive(Clone, PartialEq, Eq, Hash, Debug)]
pub struct C2;
#[derive(Clone, PartialEq, Eq, Hash, Debug)]
pub struct C6;
#[derive(Clone, PartialEq, Eq, Hash, Debug)]
pub struct C12;
impl ExtCfg for C2 {
    type B = Q1;
    const D: usize = 2;
    fn nr() -> Q1 {
        Q1::one().neg()
    }
}
impl ExtCfg for C6 {
    type B = Q2;
    const D: usize = 3;
    fn nr() -> Q2 {
        Q2::new(vec![Q1::one(), Q1::one()])
    }
}
impl ExtCfg for C12 {
    type B = Q6;
    const D: usize = 2;
    fn nr() -> Q6 {
        Q6::gen()
    }
}
pub type Q2 = Ext<C2>;
pub type Q6 = Ext<C6>;
pub type Q12 = Ext<C12>;

pub fn q2(c0: &BigUint, c1: &BigUint) -> Q2 {
    Q2::new(vec![Q1::new_ref(c0), Q1::new_ref(c1)])
}
pub fn q2u(c0: u64, c1: u64) -> Q2 {
    Q2::new(vec![Q1::from_u64(c0), Q1::from_u64(c1)])
}

impl Q2 {
    pub fn norm(&self) -> Q1 {
        self.0[0].sq().add(&self.0[1].sq())
    }
    pub fn is_square(&self) -> bool {
        self.norm().is_square()
    }
    /// RFC 9380 sgn0 for m = 2
    pub fn sgn0(&self) -> u8 {
        let s0 = self.0[0].sgn0();
        let z0 = self.0[0].is_zero();
        let s1 = self.0[1].sgn0();
        s0 | ((z0 as u8) & s1)
    }
    /// some square root (generic "complex method"), self-certified
    pub fn sqrt(&self) -> Option<Q2> {
        if self.is_zero() {
            return Some(Q2::zero());
        }
        let a0 = &self.0[0];
        let a1 = &self.0[1];
        let res = if a1.is_zero() {
            match a0.sqrt() {
                Some(s) => Q2::new(vec![s, Q1::zero()]),
                None => {
                    // -a0 is a square since -1 is a non-residue (q = 3 mod 4)
                    let s = a0.neg().sqrt().expect("neither a nor -a square in Fq");
                    Q2::new(vec![Q1::zero(), s])
                }
            }
        } else {
            let n = self.norm();
            let s = n.sqrt()?;
            let half = Q1::from_u64(2).inv().unwrap();
            let mut t = a0.add(&s).mul(&half);
            if !t.is_square() {
                t = a0.sub(&s).mul(&half);
            }
            let x0 = t.sqrt()?;
            let x1 = a1.mul(&x0.dbl().inv()?);
            Q2::new(vec![x0, x1])
        };
        assert!(res.sq() == *self, "reference Fq2 sqrt failed self-certification");
        Some(res)
    }
    pub fn conj(&self) -> Q2 {
        Q2::new(vec![self.0[0].clone(), self.0[1].neg()])
    }
}

/// Flatten an Fq12 element to its 12 Fq coefficients in the tower order
/// [c0.c0.c0, c0.c0.c1, c0.c1.c0, c0.c1.c1, c0.c2.c0, c0.c2.c1, c1.c0.c0, ...]
pub fn q12_coeffs(x: &Q12) -> Vec<Q1> {
    let mut v = vec![];
    for h in &x.0 {
        for c in &h.0 {
            for b in &c.0 {
                v.push(b.clone());
            }
        }
    }
    v
}
pub fn q12_from_coeffs(v: &[Q1]) -> Q12 {
    assert_eq!(v.len(), 12);
    let mut halves = vec![];
    for h in 0..2 {
        let mut cs = vec![];
        for c in 0..3 {
            cs.push(Q2::new(vec![v[h * 6 + c * 2].clone(), v[h * 6 + c * 2 + 1].clone()]));
        }
        halves.push(Q6::new(cs));
    }
    Q12::new(halves)
}
pub fn q6_coeffs(x: &Q6) -> Vec<Q1> {
    let mut v = vec![];
    for c in &x.0 {
        for b in &c.0 {
            v.push(b.clone());
        }
    }
    v
}
pub fn q6_from_coeffs(v: &[Q1]) -> Q6 {
    assert_eq!(v.len(), 6);
    Q6::new((0..3).map(|c| Q2::new(vec![v[c * 2].clone(), v[c * 2 + 1].clone()])).collect())
}
pub fn embed_q2_in_q12(x: &Q2) -> Q12 {
    Q12::embed(Q6::embed(x.clone()))
}
pub fn embed_q6_in_q12(x: &Q6) -> Q12 {
    Q12::embed(x.clone())
}

/// Frobenius by definition: the q-power images of the three adjoined generators are computed by
/// generic exponentiation once; x -> x^q is then evaluated through "Frobenius is a ring homomorphism
/// fixing Fq".  x^(q^k) iterates this k mod 12 times (x^(q^12) = x in F_{q^12}).
pub struct FrobTable {
    /// img[k][i]: image under x -> x^(q^k) of the i-th basis monomial (coefficient order of q12_coeffs)
    img: Vec<Vec<Q12>>,
}
fn scale_q12(x: &Q12, c: &Q1) -> Q12 {
    q12_from_coeffs(&q12_coeffs(x).iter().map(|a| a.mul(c)).collect::<Vec<_>>())
}
fn apply_frob(img: &[Q12], x: &Q12) -> Q12 {
    let cs = q12_coeffs(x);
    let mut acc = Q12::zero();
    for (c, im) in cs.iter().zip(img) {
        if c.is_zero() {
            continue;
        }
        acc = acc.add(&scale_q12(im, c));
    }
    acc
}
pub fn frob_table() -> &'static FrobTable {
    static T: OnceLock<FrobTable> = OnceLock::new();
    T.get_or_init(|| {
        let u = embed_q2_in_q12(&Q2::gen());
        let v = embed_q6_in_q12(&Q6::gen());
        let w = Q12::gen();
        // the only exponentiations: u^q, v^q, w^q by generic square-and-multiply
        let imgs: Vec<Q12> = {
            let gens = [u, v, w];
            let hs: Vec<_> = gens
                .iter()
                .map(|g| {
                    let g = g.clone();
                    std::thread::spawn(move || g.pow(q()))
                })
                .collect();
            hs.into_iter().map(|h| h.join().unwrap()).collect()
        };
        let (uq, vq, wq) = (&imgs[0], &imgs[1], &imgs[2]);
        // basis monomial order of q12_coeffs: index = k*6 + j*2 + i  for u^i v^j w^k
        let mut basis1 = vec![];
        for k in 0..2 {
            for j in 0..3 {
                for i in 0..2 {
                    let mut m = Q12::one();
                    for _ in 0..i {
                        m = m.mul(uq);
                    }
                    for _ in 0..j {
                        m = m.mul(vq);
                    }
                    for _ in 0..k {
                        m = m.mul(wq);
                    }
                    basis1.push(m);
                }
            }
        }
        let mut basis0 = vec![];
        for i in 0..12 {
            let mut cs = vec![Q1::zero(); 12];
            cs[i] = Q1::one();
            basis0.push(q12_from_coeffs(&cs));
        }
        let mut img = vec![basis0, basis1.clone()];
        for k in 2..12 {
            // (x^(q^(k-1)))^q : apply the one-step map to the previous images
            let prev: Vec<Q12> = img[k - 1].iter().map(|b| apply_frob(&basis1, b)).collect();
            img.push(prev);
        }
        // x^(q^12) = x : the 12th iterate must be the identity map (self-validation of the table)
        for i in 0..12 {
            assert!(apply_frob(&basis1, &img[11][i]) == img[0][i], "Frobenius table: 12th iterate is not the identity");
        }
        FrobTable { img }
    })
}
/// x^(q^k) (x^(q^12) = x in F_{q^12})
pub fn frob12(x: &Q12, k: usize) -> Q12 {
    apply_frob(&frob_table().img[k % 12], x)
}
pub fn frob6(x: &Q6, k: usize) -> Q6 {
    let y = frob12(&embed_q6_in_q12(x), k);
    assert!(y.0[1].is_zero(), "Frobenius image left Fq6");
    y.0[0].clone()
}
pub fn frob2(x: &Q2, k: usize) -> Q2 {
    let y = frob6(&Q6::embed(x.clone()), k);
    assert!(y.0[1].is_zero() && y.0[2].is_zero(), "Frobenius image left Fq2");
    y.0[0].clone()
}

// ---------------------------------------------------------------------------------------------
// elliptic curves, affine chord-and-tangent
// ---------------------------------------------------------------------------------------------
#[derive(Clone, PartialEq, Eq, Hash, Debug)]
pub enum Pt<F: RF> {
    Inf,
    Aff(F, F),
}
impl<F: RF> Pt<F> {
    pub fn is_inf(&self) -> bool {
        matches!(self, Pt::Inf)
    }
    pub fn xy(&self) -> Option<(&F, &F)> {
        match self {
            Pt::Inf => None,
            Pt::Aff(x, y) => Some((x, y)),
        }
    }
}
#[derive(Clone, Debug)]
pub struct Curve<F: RF> {
    pub a: F,
    pub b: F,
}
impl<F: RF> Curve<F> {
    pub fn rhs(&self, x: &F) -> F {
        x.sq().mul(x).add(&self.a.mul(x)).add(&self.b)
    }
    pub fn on_curve(&self, p: &Pt<F>) -> bool {
        match p {
            Pt::Inf => true,
            Pt::Aff(x, y) => y.sq() == self.rhs(x),
        }
    }
    pub fn neg(&self, p: &Pt<F>) -> Pt<F> {
        match p {
            Pt::Inf => Pt::Inf,
            Pt::Aff(x, y) => Pt::Aff(x.clone(), y.neg()),
        }
    }
    pub fn add(&self, p: &Pt<F>, q: &Pt<F>) -> Pt<F> {
        match (p, q) {
            (Pt::Inf, _) => q.clone(),
            (_, Pt::Inf) => p.clone(),
            (Pt::Aff(x1, y1), Pt::Aff(x2, y2)) => {
                let lambda = if x1 == x2 {
                    if y1 == y2 && !y1.is_zero() {
                        // tangent
                        let num = x1.sq().mul(&F::from_u64(3)).add(&self.a);
                        num.mul(&y1.dbl().inv().unwrap())
                    } else {
                        // y1 = -y2 (including y = 0)
                        debug_assert!(y1.add(y2).is_zero());
                        return Pt::Inf;
                    }
                } else {
                    y2.sub(y1).mul(&x2.sub(x1).inv().unwrap())
                };
                let x3 = lambda.sq().sub(x1).sub(x2);
                let y3 = lambda.mul(&x1.sub(&x3)).sub(y1);
                Pt::Aff(x3, y3)
            }
        }
    }
    pub fn dbl(&self, p: &Pt<F>) -> Pt<F> {
        self.add(p, p)
    }
    pub fn sub(&self, p: &Pt<F>, q: &Pt<F>) -> Pt<F> {
        self.add(p, &self.neg(q))
    }
    pub fn mul(&self, p: &Pt<F>, k: &BigUint) -> Pt<F> {
        let mut acc = Pt::Inf;
        for i in (0..k.bits()).rev() {
            acc = self.dbl(&acc);
            if bit(k, i) {
                acc = self.add(&acc, p);
            }
        }
        acc
    }
    /// the affine point(s) with this x, if any: (x, y) with y some root
    pub fn lift_x(&self, x: &F, sqrt: &dyn Fn(&F) -> Option<F>) -> Option<Pt<F>> {
        sqrt(&self.rhs(x)).map(|y| Pt::Aff(x.clone(), y))
    }
}

/// fixed-base multiplication table (radix 16): only reference additions, 64 per multiplication
pub struct FixedBase<F: RF> {
    c: Curve<F>,
    t: Vec<Vec<Pt<F>>>,
}
impl<F: RF> FixedBase<F> {
    pub fn new(c: &Curve<F>, base: &Pt<F>, bits: usize) -> Self {
        let digits = (bits + 3) / 4;
        let mut t = Vec::with_capacity(digits);
        let mut b = base.clone();
        for _ in 0..digits {
            let mut row = vec![Pt::Inf];
            for d in 1..16 {
                let prev: &Pt<F> = &row[d - 1];
                row.push(c.add(prev, &b));
            }
            // next base = 16 * b
            b = c.add(&row[15], &b);
            t.push(row);
        }
        FixedBase { c: c.clone(), t }
    }
    pub fn mul(&self, k: &BigUint) -> Pt<F> {
        assert!(k.bits() <= 4 * self.t.len());
        let bytes = k.to_bytes_le();
        let mut acc = Pt::Inf;
        for (j, row) in self.t.iter().enumerate() {
            let byte = bytes.get(j / 2).copied().unwrap_or(0);
            let d = if j % 2 == 0 { byte & 15 } else { byte >> 4 } as usize;
            if d != 0 {
                acc = self.c.add(&acc, &row[d]);
            }
        }
        acc
    }
}

pub fn e1() -> Curve<Q1> {
    Curve { a: Q1::zero(), b: Q1::from_u64(4) }
}
pub fn e2() -> Curve<Q2> {
    Curve { a: Q2::zero(), b: q2u(4, 4) }
}
/// RFC 9380 8.8.1: E1' : y^2 = x^3 + A'x + B', 11-isogenous to E1
pub fn e1_iso() -> Curve<Q1> {
    Curve {
        a: Q1::new(big("144698a3b8e9433d693a02c96d4982b0ea985383ee66a8d8e8981aefd881ac98936f8da0e0f97f5cf428082d584c1d")),
        b: Q1::new(big("12e2908d11688030018b12e8753eee3b2016c1f0f24f4070a0b9c14fcef35ef55a23215a316ceaa5d1cc48e98e172be0")),
    }
}
/// RFC 9380 8.8.2: E2' : y^2 = x^3 + 240 I x + 1012 (1 + I)
pub fn e2_iso() -> Curve<Q2> {
    Curve { a: q2u(0, 240), b: q2u(1012, 1012) }
}
pub fn sswu_z1() -> Q1 {
    Q1::from_u64(11)
}
pub fn sswu_z2() -> Q2 {
    // -(2 + I)
    q2u(2, 1).neg()
}

/// generators, decimal literals as documented in the repository README / source comments
pub fn g1_gen() -> Pt<Q1> {
    Pt::Aff(
        Q1::new(bigdec("3685416753713387016781088315183077757961620795782546409894578378688607592378376318836054947676345821548104185464507")),
        Q1::new(bigdec("1339506544944476473020471379941921221584933875938349620426543736416511423956333506472724655353366534992391756441569")),
    )
}
pub fn g2_gen() -> Pt<Q2> {
    Pt::Aff(
        q2(
            &bigdec("352701069587466618187139116011060144890029952792775240219908644239793785735715026873347600343865175952761926303160"),
            &bigdec("3059144344244213709971259814753781636986470325476647558659373206291635324768958432433509563104347017837885763365758"),
        ),
        q2(
            &bigdec("1985150602287291935568054521177171638300868978215655730859378665066344726373823718423869104263333984641494340347905"),
            &bigdec("927553665492332455747201965776037880757740193453592970025027978793976877002675564980949289727957565575433344219582"),
        ),
    )
}

pub fn sqrt_q1(x: &Q1) -> Option<Q1> {
    x.sqrt()
}
pub fn sqrt_q2(x: &Q2) -> Option<Q2> {
    x.sqrt()
}

// ---------------------------------------------------------------------------------------------
// textbook reduced ate pairing
// ---------------------------------------------------------------------------------------------
fn q12_from_q1(x: &Q1) -> Q12 {
    embed_q2_in_q12(&Q2::new(vec![x.clone(), Q1::zero()]))
}
/// untwist psi: E'(Fq2) -> E(Fq12), (x', y') -> (x'/w^2, y'/w^3)
pub fn untwist(p: &Pt<Q2>) -> Pt<Q12> {
    match p {
        Pt::Inf => Pt::Inf,
        Pt::Aff(x, y) => {
            let w = Q12::gen();
            let w2 = w.sq();
            let w3 = w2.mul(&w);
            Pt::Aff(embed_q2_in_q12(x).mul(&w2.inv().unwrap()), embed_q2_in_q12(y).mul(&w3.inv().unwrap()))
        }
    }
}
pub fn final_exp_exponent() -> &'static BigUint {
    static E: OnceLock<BigUint> = OnceLock::new();
    E.get_or_init(|| {
        let q = q();
        let mut q12 = BigUint::one();
        for _ in 0..12 {
            q12 = &q12 * q;
        }
        let e = (&q12 - 1u32) / r();
        assert!(((&q12 - 1u32) % r()).is_zero());
        e * 3u32
    })
}
/// Miller function f_{|x|, psi(Q)}(P), conjugated (x < 0); vertical lines omitted (they lie in a
/// proper subfield and die in the final exponentiation).  None if a degenerate line is met (P or Q identity).
pub fn miller_textbook(p: &Pt<Q1>, qq: &Pt<Q2>) -> Q12 {
    let (px, py) = match p {
        Pt::Inf => return Q12::one(),
        Pt::Aff(x, y) => (q12_from_q1(x), q12_from_q1(y)),
    };
    if qq.is_inf() {
        return Q12::one();
    }
    let e12: Curve<Q12> = Curve { a: Q12::zero(), b: Q12::from_u64(4) };
    let qt = untwist(qq);
    assert!(e12.on_curve(&qt), "untwisted point not on E(Fq12)");
    let line = |a: &Pt<Q12>, b: &Pt<Q12>| -> Q12 {
        // line through a and b (tangent if equal) evaluated at P
        let (x1, y1) = a.xy().unwrap();
        let (x2, y2) = b.xy().unwrap();
        let lambda = if x1 == x2 {
            if y1 == y2 {
                x1.sq().mul(&Q12::from_u64(3)).mul(&y1.dbl().inv().unwrap())
            } else {
                // vertical line: x_P - x_A
                return px.sub(x1);
            }
        } else {
            y2.sub(y1).mul(&x2.sub(x1).inv().unwrap())
        };
        py.sub(y1).sub(&lambda.mul(&px.sub(x1)))
    };
    let x = bu(BLS_X_ABS);
    let mut f = Q12::one();
    let mut t = qt.clone();
    for i in (0..x.bits() - 1).rev() {
        f = f.sq().mul(&line(&t, &t));
        t = e12.dbl(&t);
        if bit(&x, i) {
            f = f.mul(&line(&t, &qt));
            t = e12.add(&t, &qt);
        }
    }
    // x negative: f_{-|x|} = 1/f_{|x|} up to vertical lines; after the easy part of the final
    // exponentiation inversion is conjugation over Fq6, and conjugation commutes with it.
    Q12::new(vec![f.0[0].clone(), f.0[1].neg()])
}
pub fn final_exp_textbook(f: &Q12) -> Q12 {
    f.pow(final_exp_exponent())
}
pub fn pairing_textbook(p: &Pt<Q1>, qq: &Pt<Q2>) -> Q12 {
    final_exp_textbook(&miller_textbook(p, qq))
}
/// e(g1, g2), cached
pub fn e_g1_g2() -> &'static Q12 {
    static E: OnceLock<Q12> = OnceLock::new();
    E.get_or_init(|| pairing_textbook(&g1_gen(), &g2_gen()))
}

// ---------------------------------------------------------------------------------------------
// RFC 9380
// ---------------------------------------------------------------------------------------------
pub mod rfc {
    use super::*;
    use digest::{ExtendableOutput, Input, XofReader};
    use sha2::Digest;

    #[derive(Clone, Copy, PartialEq, Eq, Debug)]
    pub enum Expander {
        XmdSha256,
        XmdSha512,
        XofShake128,
        XofShake256,
    }
    fn h256(parts: &[&[u8]]) -> Vec<u8> {
        let mut all = vec![];
        for p in parts {
            all.extend_from_slice(p);
        }
        sha2::Sha256::digest(&all).to_vec()
    }
    fn h512(parts: &[&[u8]]) -> Vec<u8> {
        let mut all = vec![];
        for p in parts {
            all.extend_from_slice(p);
        }
        sha2::Sha512::digest(&all).to_vec()
    }
    /// RFC 9380 5.3.1; None = abort
    pub fn expand_message_xmd(h: Expander, msg: &[u8], dst: &[u8], len_in_bytes: usize) -> Option<Vec<u8>> {
        let (b_in_bytes, s_in_bytes): (usize, usize) = match h {
            Expander::XmdSha256 => (32, 64),
            Expander::XmdSha512 => (64, 128),
            _ => unreachable!(),
        };
        let hh = |parts: &[&[u8]]| -> Vec<u8> {
            match h {
                Expander::XmdSha256 => h256(parts),
                _ => h512(parts),
            }
        };
        let ell = (len_in_bytes + b_in_bytes - 1) / b_in_bytes;
        if ell > 255 || len_in_bytes > 65535 || dst.len() > 255 {
            return None;
        }
        let dst_prime: Vec<u8> = [dst, &[dst.len() as u8]].concat();
        let z_pad = vec![0u8; s_in_bytes];
        let l_i_b_str = [(len_in_bytes >> 8) as u8, (len_in_bytes & 0xff) as u8];
        let b0 = hh(&[&z_pad, msg, &l_i_b_str, &[0u8], &dst_prime]);
        let mut b_prev = hh(&[&b0, &[1u8], &dst_prime]);
        let mut out = b_prev.clone();
        for i in 2..=ell {
            let x: Vec<u8> = b0.iter().zip(&b_prev).map(|(a, b)| a ^ b).collect();
            b_prev = hh(&[&x, &[i as u8], &dst_prime]);
            out.extend_from_slice(&b_prev);
        }
        out.truncate(len_in_bytes);
        Some(out)
    }
    /// RFC 9380 5.3.2
    pub fn expand_message_xof(h: Expander, msg: &[u8], dst: &[u8], len_in_bytes: usize) -> Option<Vec<u8>> {
        if len_in_bytes > 65535 || dst.len() > 255 {
            return None;
        }
        let mut all = vec![];
        all.extend_from_slice(msg);
        all.extend_from_slice(&[(len_in_bytes >> 8) as u8, (len_in_bytes & 0xff) as u8]);
        all.extend_from_slice(dst);
        all.push(dst.len() as u8);
        let mut out = vec![0u8; len_in_bytes];
        match h {
            Expander::XofShake128 => {
                let mut s = sha3::Shake128::default();
                s.input(&all);
                s.xof_result().read(&mut out);
            }
            Expander::XofShake256 => {
                let mut s = sha3::Shake256::default();
                s.input(&all);
                s.xof_result().read(&mut out);
            }
            _ => unreachable!(),
        }
        Some(out)
    }
    pub fn expand(h: Expander, msg: &[u8], dst: &[u8], len: usize) -> Option<Vec<u8>> {
        match h {
            Expander::XmdSha256 | Expander::XmdSha512 => expand_message_xmd(h, msg, dst, len),
            _ => expand_message_xof(h, msg, dst, len),
        }
    }
    /// hash_to_field with m = 1 or 2, L = block length, modulus p: returns count*m integers mod p
    pub fn hash_to_field_ints(h: Expander, msg: &[u8], dst: &[u8], count: usize, m: usize, l: usize, p: &BigUint) -> Option<Vec<BigUint>> {
        let bytes = expand(h, msg, dst, count * m * l)?;
        let mut out = vec![];
        for i in 0..count * m {
            let tv = &bytes[i * l..(i + 1) * l];
            out.push(BigUint::from_bytes_be(tv) % p);
        }
        Some(out)
    }

    pub trait SswuField: RF {
        fn is_sq(&self) -> bool;
        fn root(&self) -> Option<Self>;
        fn sign(&self) -> u8;
    }
    impl SswuField for Q1 {
        fn is_sq(&self) -> bool {
            self.is_square()
        }
        fn root(&self) -> Option<Self> {
            self.sqrt()
        }
        fn sign(&self) -> u8 {
            self.sgn0()
        }
    }
    impl SswuField for Q2 {
        fn is_sq(&self) -> bool {
            self.is_square()
        }
        fn root(&self) -> Option<Self> {
            self.sqrt()
        }
        fn sign(&self) -> u8 {
            self.sgn0()
        }
    }
    /// RFC 9380 6.6.2 map_to_curve_simple_swu, straight from the definition.
    /// Returns (point, used_x1)
    pub fn sswu<F: SswuField>(c: &Curve<F>, z: &F, u: &F) -> (Pt<F>, bool) {
        let (a, b) = (&c.a, &c.b);
        let u2 = u.sq();
        let zu2 = z.mul(&u2);
        let tv1 = zu2.sq().add(&zu2).inv0();
        let mut x1 = b.neg().mul(&a.inv().unwrap()).mul(&F::one().add(&tv1));
        if tv1.is_zero() {
            x1 = b.mul(&z.mul(a).inv().unwrap());
        }
        let gx1 = c.rhs(&x1);
        let x2 = zu2.mul(&x1);
        let gx2 = c.rhs(&x2);
        let (x, mut y, first) = if gx1.is_sq() {
            (x1, gx1.root().expect("is_square but no root"), true)
        } else {
            (x2, gx2.root().expect("neither gx1 nor gx2 square: Z is wrong"), false)
        };
        if u.sign() != y.sign() {
            y = y.neg();
        }
        (Pt::Aff(x, y), first)
    }
}

// ---------------------------------------------------------------------------------------------
// ZCash BLS12-381 point wire format (written from src/bls12_381/README.md)
// ---------------------------------------------------------------------------------------------
pub mod zcash {
    use super::*;

    /// category of the first failed validation, in the stated precedence
    #[derive(Clone, Copy, PartialEq, Eq, Debug, Hash)]
    pub enum DecErr {
        Form,
        Flags,
        Range,
        Curve,
        Subgroup,
    }

    pub trait WireField: RF {
        /// number of Fq components (1 or 2)
        const M: usize;
        /// components in wire order (most significant first: c1 then c0 for Fq2)
        fn from_wire(comps: &[BigUint]) -> Option<Self>;
        fn to_wire(&self) -> Vec<BigUint>;
        /// true if self is lexicographically larger than -self
        fn is_larger_than_neg(&self) -> bool;
        fn wsqrt(&self) -> Option<Self>;
    }
    impl WireField for Q1 {
        const M: usize = 1;
        fn from_wire(c: &[BigUint]) -> Option<Self> {
            if &c[0] >= q() {
                None
            } else {
                Some(Q1::new_ref(&c[0]))
            }
        }
        fn to_wire(&self) -> Vec<BigUint> {
            vec![self.int().clone()]
        }
        fn is_larger_than_neg(&self) -> bool {
            self.int() > self.neg().int()
        }
        fn wsqrt(&self) -> Option<Self> {
            self.sqrt()
        }
    }
    impl WireField for Q2 {
        const M: usize = 2;
        fn from_wire(c: &[BigUint]) -> Option<Self> {
            if &c[0] >= q() || &c[1] >= q() {
                None
            } else {
                // wire order: c1 first
                Some(q2(&c[1], &c[0]))
            }
        }
        fn to_wire(&self) -> Vec<BigUint> {
            vec![self.c(1).int().clone(), self.c(0).int().clone()]
        }
        fn is_larger_than_neg(&self) -> bool {
            let n = self.neg();
            (self.c(1).int(), self.c(0).int()) > (n.c(1).int(), n.c(0).int())
        }
        fn wsqrt(&self) -> Option<Self> {
            self.sqrt()
        }
    }

    pub fn coord_len<F: WireField>() -> usize {
        48 * F::M
    }
    pub fn enc_len<F: WireField>(compressed: bool) -> usize {
        if compressed {
            coord_len::<F>()
        } else {
            2 * coord_len::<F>()
        }
    }
    fn put<F: WireField>(out: &mut Vec<u8>, v: &F) {
        for c in v.to_wire() {
            let b = c.to_bytes_be();
            out.extend(std::iter::repeat(0u8).take(48 - b.len()));
            out.extend_from_slice(&b);
        }
    }
    pub fn encode<F: WireField>(p: &Pt<F>, compressed: bool) -> Vec<u8> {
        let len = enc_len::<F>(compressed);
        let mut out = Vec::with_capacity(len);
        match p {
            Pt::Inf => {
                out.resize(len, 0);
                out[0] |= 1 << 6;
            }
            Pt::Aff(x, y) => {
                put(&mut out, x);
                if compressed {
                    if y.is_larger_than_neg() {
                        out[0] |= 1 << 5;
                    }
                } else {
                    put(&mut out, y);
                }
            }
        }
        if compressed {
            out[0] |= 1 << 7;
        }
        out
    }
    /// decode; `membership(p)` is consulted only when everything else passed (the caller supplies [r]P = O)
    pub fn decode<F: WireField>(c: &Curve<F>, bytes: &[u8], compressed: bool, checked: bool, membership: &dyn Fn(&Pt<F>) -> bool) -> Result<Pt<F>, DecErr> {
        assert_eq!(bytes.len(), enc_len::<F>(compressed));
        let b0 = bytes[0];
        let (fc, fi, fs) = (b0 & 0x80 != 0, b0 & 0x40 != 0, b0 & 0x20 != 0);
        if fc != compressed {
            return Err(DecErr::Form);
        }
        if fi {
            let mut rest = bytes.to_vec();
            rest[0] &= 0x3f;
            if rest.iter().all(|b| *b == 0) {
                return Ok(Pt::Inf);
            }
            return Err(DecErr::Flags);
        }
        if !compressed && fs {
            return Err(DecErr::Flags);
        }
        let mut body = bytes.to_vec();
        body[0] &= 0x1f;
        let comps: Vec<BigUint> = body.chunks(48).map(BigUint::from_bytes_be).collect();
        let x = F::from_wire(&comps[..F::M]).ok_or(DecErr::Range)?;
        let p = if compressed {
            let y = c.rhs(&x).wsqrt().ok_or(DecErr::Curve)?;
            let y = if y.is_larger_than_neg() == fs || y.is_zero() { y } else { y.neg() };
            Pt::Aff(x, y)
        } else {
            let y = F::from_wire(&comps[F::M..]).ok_or(DecErr::Range)?;
            Pt::Aff(x, y)
        };
        if checked {
            if !c.on_curve(&p) {
                return Err(DecErr::Curve);
            }
            if !membership(&p) {
                return Err(DecErr::Subgroup);
            }
        }
        Ok(p)
    }
}
