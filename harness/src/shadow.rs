//! Concrete-call conformance: the generic checks reach the library through its traits; a user who writes
//! `x.pow(e)` on a concrete type gets an *inherent* method if one exists.  For every public trait method of
//! the concrete field / group types this module calls it both ways on an alphabet and requires identical
//! results, so that an inherent method shadowing a trait method is held to the same oracle.
use crate::infra::{unrank, Ctx, Fail};
use ff::{Field, PrimeField, SqrtField};
use serde_json::json;

/// compares `x.m()` (method resolution on the concrete type) with `<T as Field>::m(&x)`
#[macro_export]
macro_rules! shadow_field {
    ($ctx:expr, $name:expr, $T:ty, $els:expr, $exps:expr) => {{
        let els: &Vec<$T> = $els;
        let exps: &Vec<Vec<u64>> = $exps;
        let ops = ["square", "double", "negate", "inverse", "is_zero", "add_assign", "sub_assign", "mul_assign", "frobenius_map", "pow"];
        let n = els.len() as u64;
        let rad = [ops.len() as u64, n, n.min(12)];
        $ctx.sweep(
            &format!("{}.concrete_vs_trait_calls", $name),
            $crate::infra::space(&rad),
            |i| {
                let d = unrank(i, &rad);
                json!({"type": $name, "op": ops[d[0]], "operand_index": d[1], "second_operand_index": d[2]})
            },
            |i| {
                let d = unrank(i, &rad);
                let x: $T = els[d[1]];
                let y: $T = els[(d[2] * 7 + 1) % els.len()];
                let (a, b): ($T, $T) = match d[0] {
                    0 => {
                        let mut a = x;
                        a.square();
                        let mut b = x;
                        <$T as Field>::square(&mut b);
                        (a, b)
                    }
                    1 => {
                        let mut a = x;
                        a.double();
                        let mut b = x;
                        <$T as Field>::double(&mut b);
                        (a, b)
                    }
                    2 => {
                        let mut a = x;
                        a.negate();
                        let mut b = x;
                        <$T as Field>::negate(&mut b);
                        (a, b)
                    }
                    3 => {
                        let a = x.inverse();
                        let b = <$T as Field>::inverse(&x);
                        if a.is_some() != b.is_some() {
                            return Err(Fail::new(format!("{}: x.inverse() and Field::inverse(&x) disagree on success", $name)));
                        }
                        (a.unwrap_or(x), b.unwrap_or(x))
                    }
                    4 => {
                        if x.is_zero() != <$T as Field>::is_zero(&x) {
                            return Err(Fail::new(format!("{}: x.is_zero() and Field::is_zero(&x) disagree", $name)));
                        }
                        (x, x)
                    }
                    5 => {
                        let mut a = x;
                        a.add_assign(&y);
                        let mut b = x;
                        <$T as Field>::add_assign(&mut b, &y);
                        (a, b)
                    }
                    6 => {
                        let mut a = x;
                        a.sub_assign(&y);
                        let mut b = x;
                        <$T as Field>::sub_assign(&mut b, &y);
                        (a, b)
                    }
                    7 => {
                        let mut a = x;
                        a.mul_assign(&y);
                        let mut b = x;
                        <$T as Field>::mul_assign(&mut b, &y);
                        (a, b)
                    }
                    8 => {
                        let k = d[2] * 5 + 1;
                        let mut a = x;
                        a.frobenius_map(k);
                        let mut b = x;
                        <$T as Field>::frobenius_map(&mut b, k);
                        (a, b)
                    }
                    _ => {
                        // every exponent shape of the alphabet (zero limbs below non-zero limbs included)
                        for e in exps.iter() {
                            let a = x.pow(e);
                            let b = <$T as Field>::pow(&x, e);
                            if a != b {
                                return Err(Fail::new(format!("{}: x.pow(e) and Field::pow(&x, e) differ for exponent limbs {:x?} (an inherent method shadows the trait method)", $name, e)));
                            }
                        }
                        $crate::infra::bump(exps.len() as u64 - 1);
                        (x, x)
                    }
                };
                if a != b {
                    return Err(Fail::new(format!("{}: x.{}() on the concrete type differs from the trait method (an inherent method shadows it)", $name, ops[d[0]])));
                }
                Ok(ops[d[0]])
            },
        );
    }};
}

#[macro_export]
macro_rules! shadow_sqrt {
    ($ctx:expr, $name:expr, $T:ty, $els:expr) => {{
        let els: &Vec<$T> = $els;
        $ctx.sweep(
            &format!("{}.concrete_vs_trait_sqrt", $name),
            els.len() as u64,
            |i| json!({"type": $name, "operand_index": i}),
            |i| {
                let x: $T = els[i as usize];
                let a = x.sqrt();
                let b = <$T as SqrtField>::sqrt(&x);
                if a.is_some() != b.is_some() {
                    return Err(Fail::new(format!("{}: x.sqrt() and SqrtField::sqrt(&x) disagree", $name)));
                }
                if let (Some(a), Some(b)) = (a, b) {
                    let (mut a2, mut b2) = (a, b);
                    a2.square();
                    b2.square();
                    if a2 != b2 {
                        return Err(Fail::new(format!("{}: concrete and trait sqrt return roots of different elements", $name)));
                    }
                }
                if x.legendre() != <$T as SqrtField>::legendre(&x) {
                    return Err(Fail::new(format!("{}: x.legendre() and SqrtField::legendre(&x) disagree", $name)));
                }
                Ok("sqrt/legendre")
            },
        );
    }};
}

pub fn exponent_shapes() -> Vec<Vec<u64>> {
    vec![
        vec![],
        vec![0],
        vec![1],
        vec![0, 1],
        vec![5, 0, 3, 0],
        vec![0, 0, 1],
        vec![u64::MAX, 0, u64::MAX],
        vec![1, 0, 0, 0, 0, 0, 0, 0, 0, 0, 0, 1],
        vec![0xdeadbeef, 0x1234, 0, 7],
        vec![0, u64::MAX],
    ]
}

#[allow(dead_code)]
pub fn keep<T: PrimeField>(_: &T, _: &Ctx) {}

/// the same for the group types: `p.double()` etc. on the concrete type vs the `CurveProjective` /
/// `CurveAffine` trait methods, compared on raw coordinates
#[macro_export]
macro_rules! shadow_curve {
    ($ctx:expr, $name:expr, $P:ty, $A:ty, $pts:expr, $scalars:expr) => {{
        use pairing_plus::{CurveAffine, CurveProjective};
        let pts: &Vec<$P> = $pts;
        let scalars: &Vec<pairing_plus::bls12_381::FrRepr> = $scalars;
        let ops = ["double", "negate", "add_assign", "sub_assign", "add_assign_mixed", "sub_assign_mixed", "into_affine", "is_zero/is_normalized", "mul_assign", "affine mul", "affine negate/into_projective", "batch_normalization"];
        let n = pts.len() as u64;
        let rad = [ops.len() as u64, n, n];
        $ctx.sweep(
            &format!("{}.concrete_vs_trait_calls", $name),
            $crate::infra::space(&rad),
            |i| {
                let d = unrank(i, &rad);
                json!({"type": $name, "op": ops[d[0]], "operand_index": d[1], "second_operand_index": d[2]})
            },
            |i| {
                let d = unrank(i, &rad);
                let x: $P = pts[d[1]];
                let y: $P = pts[d[2]];
                let raw = |p: &$P| {
                    let (a, b, c) = <$P as CurveProjective>::as_tuple(p);
                    (*a, *b, *c)
                };
                let same = |a: &$P, b: &$P| raw(a) == raw(b);
                let ok = match d[0] {
                    0 => {
                        let mut a = x;
                        a.double();
                        let mut b = x;
                        <$P as CurveProjective>::double(&mut b);
                        same(&a, &b)
                    }
                    1 => {
                        let mut a = x;
                        a.negate();
                        let mut b = x;
                        <$P as CurveProjective>::negate(&mut b);
                        same(&a, &b)
                    }
                    2 => {
                        let mut a = x;
                        a.add_assign(&y);
                        let mut b = x;
                        <$P as CurveProjective>::add_assign(&mut b, &y);
                        same(&a, &b)
                    }
                    3 => {
                        let mut a = x;
                        a.sub_assign(&y);
                        let mut b = x;
                        <$P as CurveProjective>::sub_assign(&mut b, &y);
                        same(&a, &b)
                    }
                    4 => {
                        let ya: $A = <$P as CurveProjective>::into_affine(&y);
                        let mut a = x;
                        a.add_assign_mixed(&ya);
                        let mut b = x;
                        <$P as CurveProjective>::add_assign_mixed(&mut b, &ya);
                        same(&a, &b)
                    }
                    5 => {
                        let ya: $A = <$P as CurveProjective>::into_affine(&y);
                        let mut a = x;
                        a.sub_assign_mixed(&ya);
                        let mut b = x;
                        <$P as CurveProjective>::sub_assign_mixed(&mut b, &ya);
                        same(&a, &b)
                    }
                    6 => x.into_affine() == <$P as CurveProjective>::into_affine(&x),
                    7 => x.is_zero() == <$P as CurveProjective>::is_zero(&x) && x.is_normalized() == <$P as CurveProjective>::is_normalized(&x),
                    8 => {
                        let k = scalars[d[2] % scalars.len()];
                        let mut a = x;
                        a.mul_assign(k);
                        let mut b = x;
                        <$P as CurveProjective>::mul_assign(&mut b, k);
                        same(&a, &b)
                    }
                    9 => {
                        let k = scalars[d[2] % scalars.len()];
                        let xa: $A = <$P as CurveProjective>::into_affine(&x);
                        let a = xa.mul(k);
                        let b = <$A as CurveAffine>::mul(&xa, k);
                        same(&a, &b)
                    }
                    10 => {
                        let xa: $A = <$P as CurveProjective>::into_affine(&x);
                        let mut a = xa;
                        a.negate();
                        let mut b = xa;
                        <$A as CurveAffine>::negate(&mut b);
                        a == b && same(&xa.into_projective(), &<$A as CurveAffine>::into_projective(&xa)) && xa.is_zero() == <$A as CurveAffine>::is_zero(&xa)
                    }
                    _ => {
                        let mut a = vec![x, y, x];
                        <$P>::batch_normalization(&mut a);
                        let mut b = vec![x, y, x];
                        <$P as CurveProjective>::batch_normalization(&mut b);
                        a.iter().zip(b.iter()).all(|(p, q)| same(p, q))
                    }
                };
                if !ok {
                    return Err(Fail::new(format!("{}: {} on the concrete type differs from the trait method (an inherent method shadows it)", $name, ops[d[0]])));
                }
                Ok(ops[d[0]])
            },
        );
    }};
}

/// representation types: every `PrimeFieldRepr` method called on the concrete type vs through the trait,
/// plus the byte I/O methods under a writer / reader that handles a few bytes per call (the bytes written must
/// be complete whenever Ok is returned)
pub struct Dribble {
    pub out: Vec<u8>,
    pub per_call: usize,
}
impl std::io::Write for Dribble {
    fn write(&mut self, buf: &[u8]) -> std::io::Result<usize> {
        let n = buf.len().min(self.per_call);
        self.out.extend_from_slice(&buf[..n]);
        Ok(n)
    }
    fn flush(&mut self) -> std::io::Result<()> {
        Ok(())
    }
}
pub struct DribbleReader<'a> {
    pub data: &'a [u8],
    pub pos: usize,
    pub per_call: usize,
}
impl<'a> std::io::Read for DribbleReader<'a> {
    fn read(&mut self, buf: &mut [u8]) -> std::io::Result<usize> {
        let n = buf.len().min(self.per_call).min(self.data.len() - self.pos);
        buf[..n].copy_from_slice(&self.data[self.pos..self.pos + n]);
        self.pos += n;
        Ok(n)
    }
}

#[macro_export]
macro_rules! shadow_repr {
    ($ctx:expr, $name:expr, $R:ty, $vals:expr) => {{
        use ff::PrimeFieldRepr;
        let vals: &Vec<$R> = $vals;
        let ops = ["num_bits", "is_zero/is_odd/is_even", "div2", "mul2", "shr", "shl", "add_nocarry", "sub_noborrow", "write_be", "write_le", "read_be", "read_le", "dribbling writer", "dribbling reader"];
        let n = vals.len() as u64;
        let rad = [ops.len() as u64, n, n.min(16)];
        $ctx.sweep(
            &format!("{}.concrete_vs_trait_calls", $name),
            $crate::infra::space(&rad),
            |i| {
                let d = unrank(i, &rad);
                json!({"type": $name, "op": ops[d[0]], "operand_index": d[1], "second": d[2]})
            },
            |i| {
                let d = unrank(i, &rad);
                let x: $R = vals[d[1]];
                let y: $R = vals[(d[2] * 5 + 3) % vals.len()];
                let amt = (d[2] as u32) * 23 + 1;
                let ok = match d[0] {
                    0 => x.num_bits() == <$R as PrimeFieldRepr>::num_bits(&x),
                    1 => x.is_zero() == <$R as PrimeFieldRepr>::is_zero(&x) && x.is_odd() == <$R as PrimeFieldRepr>::is_odd(&x) && x.is_even() == <$R as PrimeFieldRepr>::is_even(&x),
                    2 => {
                        let (mut a, mut b) = (x, x);
                        a.div2();
                        <$R as PrimeFieldRepr>::div2(&mut b);
                        a == b
                    }
                    3 => {
                        let (mut a, mut b) = (x, x);
                        a.mul2();
                        <$R as PrimeFieldRepr>::mul2(&mut b);
                        a == b
                    }
                    4 => {
                        let (mut a, mut b) = (x, x);
                        a.shr(amt);
                        <$R as PrimeFieldRepr>::shr(&mut b, amt);
                        a == b
                    }
                    5 => {
                        let (mut a, mut b) = (x, x);
                        a.shl(amt);
                        <$R as PrimeFieldRepr>::shl(&mut b, amt);
                        a == b
                    }
                    6 => {
                        // only inside the no-carry precondition: clear the top limb of both operands (inner limbs keep
                        // their all-ones patterns, so carries run through them)
                        let (mut p, mut q) = (x, y);
                        let nl = p.as_ref().len();
                        p.as_mut()[nl - 1] = 0;
                        q.as_mut()[nl - 1] = 0;
                        let (mut a, mut b) = (p, p);
                        a.add_nocarry(&q);
                        <$R as PrimeFieldRepr>::add_nocarry(&mut b, &q);
                        a == b
                    }
                    7 => {
                        let (hi, lo) = if x >= y { (x, y) } else { (y, x) };
                        let (mut a, mut b) = (hi, hi);
                        a.sub_noborrow(&lo);
                        <$R as PrimeFieldRepr>::sub_noborrow(&mut b, &lo);
                        a == b
                    }
                    8 | 9 => {
                        let (mut a, mut b) = (vec![], vec![]);
                        if d[0] == 8 {
                            x.write_be(&mut a).unwrap();
                            <$R as PrimeFieldRepr>::write_be(&x, &mut b).unwrap();
                        } else {
                            x.write_le(&mut a).unwrap();
                            <$R as PrimeFieldRepr>::write_le(&x, &mut b).unwrap();
                        }
                        a == b
                    }
                    10 | 11 => {
                        let mut bytes = vec![];
                        if d[0] == 10 {
                            <$R as PrimeFieldRepr>::write_be(&x, &mut bytes).unwrap();
                        } else {
                            <$R as PrimeFieldRepr>::write_le(&x, &mut bytes).unwrap();
                        }
                        let (mut a, mut b) = (<$R>::default(), <$R>::default());
                        if d[0] == 10 {
                            a.read_be(&bytes[..]).unwrap();
                            <$R as PrimeFieldRepr>::read_be(&mut b, &bytes[..]).unwrap();
                        } else {
                            a.read_le(&bytes[..]).unwrap();
                            <$R as PrimeFieldRepr>::read_le(&mut b, &bytes[..]).unwrap();
                        }
                        a == b && a == x
                    }
                    12 => {
                        // a writer that accepts 1..5 bytes per call: Ok must mean that every byte was written
                        let mut want = vec![];
                        <$R as PrimeFieldRepr>::write_be(&x, &mut want).unwrap();
                        let mut w = $crate::shadow::Dribble { out: vec![], per_call: 1 + d[2] % 5 };
                        match x.write_be(&mut w) {
                            Ok(()) => w.out == want,
                            Err(_) => false,
                        }
                    }
                    _ => {
                        let mut bytes = vec![];
                        <$R as PrimeFieldRepr>::write_be(&x, &mut bytes).unwrap();
                        let mut r = $crate::shadow::DribbleReader { data: &bytes, pos: 0, per_call: 1 + d[2] % 5 };
                        let mut a = <$R>::default();
                        match a.read_be(&mut r) {
                            Ok(()) => a == x,
                            Err(_) => false,
                        }
                    }
                };
                if !ok {
                    return Err(Fail::new(format!("{}: {} on the concrete representation type differs from the integer / trait behaviour (an inherent method shadows the trait method, or short reads/writes are mishandled)", $name, ops[d[0]])));
                }
                Ok(ops[d[0]])
            },
        );
    }};
}
