//! Harness infrastructure: context, exhaustive sweeps (parallel, index-ordered), panic classification,
//! evidence, replay files, known findings.  See DESIGN.md §3.
use serde_json::{json, Map, Value};
use std::cell::RefCell;
use std::collections::BTreeMap;
use std::panic::{self, AssertUnwindSafe};
use std::sync::atomic::{AtomicU64, Ordering};
use std::sync::Mutex;
use std::time::Instant;

#[derive(Clone, Copy, PartialEq, Eq, Debug)]
pub enum Tier {
    Quick,
    Thorough,
}
impl Tier {
    pub fn name(self) -> &'static str {
        match self {
            Tier::Quick => "quick",
            Tier::Thorough => "thorough",
        }
    }
    /// pick by tier
    pub fn pick<T>(self, q: T, t: T) -> T {
        match self {
            Tier::Quick => q,
            Tier::Thorough => t,
        }
    }
}

#[derive(Clone, Debug)]
pub struct Fail {
    pub desc: String,
    pub detail: Value,
}
impl Fail {
    pub fn new<S: Into<String>>(desc: S) -> Fail {
        Fail { desc: desc.into(), detail: Value::Null }
    }
    pub fn with<S: Into<String>>(desc: S, detail: Value) -> Fail {
        Fail { desc: desc.into(), detail }
    }
}
/// Ok(class): class "" means a trivial/default case, anything else names the non-default class it hit.
pub type CaseResult = Result<&'static str, Fail>;

#[derive(Clone, Debug)]
pub struct Violation {
    pub sub: String,
    pub index: u64,
    pub desc: String,
    pub detail: Value,
}

#[derive(Default)]
struct SubStat {
    evaluations: u64,
    nontrivial: u64,
    classes: BTreeMap<String, u64>,
    samples: Vec<Value>,
    space: u64,
    exhaustive: bool,
}

#[derive(Default)]
struct Inner {
    subs: BTreeMap<String, SubStat>,
    order: Vec<String>,
    violations: Vec<Violation>,
    machinery: Vec<String>,
    assumptions: Vec<String>,
    notes: Vec<String>,
    extra: Map<String, Value>,
    states: u64,
    transitions: u64,
    traces_validated: u64,
    mc_samples: Vec<Value>,
    caps_hit: Vec<String>,
}

pub struct Ctx {
    pub id: String,
    pub tier: Tier,
    pub seed: u64,
    pub replay: Option<(String, u64)>,
    pub inject: Option<String>,
    pub start: Instant,
    pub threads: usize,
    inner: Mutex<Inner>,
}

thread_local! {
    static EXTRA_EVALS: std::cell::Cell<u64> = std::cell::Cell::new(0);
}
/// A sweep case that evaluates several inner cases (e.g. one table, many scalars) reports the extra ones here.
pub fn bump(n: u64) {
    EXTRA_EVALS.with(|c| c.set(c.get() + n));
}
fn take_bump() -> u64 {
    EXTRA_EVALS.with(|c| c.replace(0))
}

thread_local! {
    static LAST_PANIC: RefCell<Option<(String, String)>> = RefCell::new(None);
}

pub fn install_panic_hook() {
    panic::set_hook(Box::new(|info| {
        let loc = info.location().map(|l| format!("{}:{}", l.file(), l.line())).unwrap_or_default();
        let msg = if let Some(s) = info.payload().downcast_ref::<&str>() {
            s.to_string()
        } else if let Some(s) = info.payload().downcast_ref::<String>() {
            s.clone()
        } else {
            "<non-string panic>".to_string()
        };
        LAST_PANIC.with(|p| *p.borrow_mut() = Some((loc, msg)));
    }));
}

/// the check body itself panicked (outside any sweep): a panic inside the subject is a violation of whatever was being
/// computed, anything else is a machinery error
pub fn report_abort(ctx: &Ctx) {
    let (loc, msg) = take_panic();
    if is_subject_panic(&loc, &msg) {
        ctx.violation("setup", 0, Fail::new(format!("subject panicked at {} while the check prepared its operands: {}", loc, msg)));
    } else {
        ctx.machinery(format!("harness panicked at {}: {}", loc, msg));
    }
}

fn take_panic() -> (String, String) {
    LAST_PANIC.with(|p| p.borrow_mut().take()).unwrap_or_default()
}

/// a panic that is a finding about the subject: raised inside the subject's code, or raised by the harness's conversion
/// layer because the subject handed out a value that violates a representation invariant
fn is_subject_panic(loc: &str, msg: &str) -> bool {
    location_is_subject(loc) || msg.starts_with(crate::conv::NONCANONICAL)
}
/// true if a panic location belongs to the subject (the repository or the field derive it uses).
fn location_is_subject(loc: &str) -> bool {
    loc.starts_with("/repo/")
        || loc.starts_with(&format!("{}/", repo_root()))
        || loc.contains("ff_derive")
        || loc.contains("ff-zeroize")
        || loc.contains("curve_impl_extracted.rs")
        || loc.ends_with("src/toy.rs") || loc.contains("src/toy.rs:")
        || loc.contains("/byteorder-")
}

/// Run a piece of *subject* code; a panic becomes Err(message).  Use for "never panics" clauses.
pub fn guard<T>(f: impl FnOnce() -> T) -> Result<T, String> {
    match panic::catch_unwind(AssertUnwindSafe(f)) {
        Ok(v) => Ok(v),
        Err(_) => {
            let (loc, msg) = take_panic();
            Err(format!("panic at {}: {}", loc, msg))
        }
    }
}

/// class names that are recorded but do not count as non-trivial
pub fn is_trivial_class(c: &str) -> bool {
    matches!(c, "" | "identity operand" | "identity" | "nothing to do" | "identical" | "different")
}

/// output root (evidence, replays, known findings) and subject root; overridable so that a copy of the harness
/// can be run against a copy of the subject (seeded/regress.sh) without touching /verif and /repo
pub fn verif_root() -> String {
    std::env::var("PPVERIF_ROOT").unwrap_or_else(|_| "/verif".to_string())
}
pub fn repo_root() -> String {
    std::env::var("PPVERIF_REPO").unwrap_or_else(|_| "/repo".to_string())
}

pub struct SplitMix(pub u64);
impl SplitMix {
    pub fn next(&mut self) -> u64 {
        self.0 = self.0.wrapping_add(0x9E3779B97F4A7C15);
        let mut z = self.0;
        z = (z ^ (z >> 30)).wrapping_mul(0xBF58476D1CE4E5B9);
        z = (z ^ (z >> 27)).wrapping_mul(0x94D049BB133111EB);
        z ^ (z >> 31)
    }
    pub fn below(&mut self, n: u64) -> u64 {
        self.next() % n
    }
}

impl Ctx {
    pub fn new(id: &str, tier: Tier, seed: u64, replay: Option<(String, u64)>) -> Ctx {
        let threads = std::env::var("VERIF_THREADS")
            .ok()
            .and_then(|s| s.parse().ok())
            .unwrap_or_else(|| std::thread::available_parallelism().map(|n| n.get()).unwrap_or(4))
            .max(1);
        Ctx {
            id: id.to_string(),
            tier,
            seed,
            replay,
            inject: std::env::var("VERIF_INJECT").ok(),
            start: Instant::now(),
            threads,
            inner: Mutex::new(Inner::default()),
        }
    }
    pub fn trace(&self, msg: &str) {
        if std::env::var("VERIF_DEBUG").is_ok() {
            eprintln!("[{:8.2}s] {}", self.start.elapsed().as_secs_f64(), msg);
        }
    }
    pub fn quick(&self) -> bool {
        self.tier == Tier::Quick
    }
    pub fn rng(&self, stream: &str) -> SplitMix {
        let mut h: u64 = 0xcbf29ce484222325 ^ self.seed;
        for b in stream.bytes() {
            h = (h ^ b as u64).wrapping_mul(0x100000001b3);
        }
        SplitMix(h)
    }
    pub fn injecting(&self, what: &str) -> bool {
        self.inject.as_deref() == Some(what)
    }
    pub fn assume<S: Into<String>>(&self, s: S) {
        self.inner.lock().unwrap().assumptions.push(s.into());
    }
    pub fn note<S: Into<String>>(&self, s: S) {
        self.inner.lock().unwrap().notes.push(s.into());
    }
    pub fn extra(&self, k: &str, v: Value) {
        self.inner.lock().unwrap().extra.insert(k.to_string(), v);
    }
    /// the toy instantiation of the subject's macro is unavailable in this build: say so, the exploration is not exhaustive
    pub fn degraded(&self, what: &str) {
        println!("DEGRADED property={} {} skipped: the extracted curve_impl! macro did not compile against the harness's toy stubs", self.id, what);
        self.cap_hit(format!("toy instantiation unavailable: {} skipped", what));
    }
    pub fn cap_hit<S: Into<String>>(&self, s: S) {
        self.inner.lock().unwrap().caps_hit.push(s.into());
    }
    /// A promise of the check about its own enumeration (non-empty class, >1 outcome...).  Failing it is a
    /// machinery error (exit 2), never a verdict.
    pub fn require(&self, cond: bool, msg: &str) {
        if !cond && self.replay.is_none() {
            self.inner.lock().unwrap().machinery.push(msg.to_string());
        }
    }
    pub fn machinery<S: Into<String>>(&self, msg: S) {
        self.inner.lock().unwrap().machinery.push(msg.into());
    }
    pub fn add_mc(&self, states: u64, transitions: u64, traces: u64, samples: Vec<Value>) {
        let mut g = self.inner.lock().unwrap();
        g.states += states;
        g.transitions += transitions;
        g.traces_validated += traces;
        for s in samples {
            if g.mc_samples.len() < 12 {
                g.mc_samples.push(s);
            }
        }
    }
    pub fn violation(&self, sub: &str, index: u64, f: Fail) {
        let mut g = self.inner.lock().unwrap();
        g.violations.push(Violation { sub: sub.to_string(), index, desc: f.desc, detail: f.detail });
    }
    pub fn has_violation(&self) -> bool {
        !self.inner.lock().unwrap().violations.is_empty()
    }
    /// is sub selected (always, unless replaying another sub)
    pub fn selected(&self, sub: &str) -> bool {
        match &self.replay {
            None => true,
            Some((s, _)) => s == sub,
        }
    }
    pub fn replay_index(&self, sub: &str) -> Option<u64> {
        match &self.replay {
            Some((s, i)) if s == sub => Some(*i),
            _ => None,
        }
    }

    /// Count a batch of cases evaluated outside `sweep` (e.g. inside a BFS) for the evidence.
    pub fn count(&self, sub: &str, evaluations: u64, nontrivial: u64, exhaustive: bool, sample: Option<Value>) {
        let mut g = self.inner.lock().unwrap();
        if !g.subs.contains_key(sub) {
            g.order.push(sub.to_string());
        }
        let st = g.subs.entry(sub.to_string()).or_default();
        st.evaluations += evaluations;
        st.nontrivial += nontrivial;
        st.space += evaluations;
        st.exhaustive = exhaustive;
        if let Some(s) = sample {
            if st.samples.len() < 4 {
                st.samples.push(s);
            }
        }
    }

    /// Exhaustive sweep over the index space 0..n.  `f(i)` evaluates case i (decoding i into its tuple),
    /// `describe(i)` writes the case out for samples / replay files.  Work is split over threads by index
    /// range and results are merged in index order, so the reported violation is the lowest index.
    pub fn sweep<F, D>(&self, sub: &str, n: u64, describe: D, f: F)
    where
        F: Fn(u64) -> CaseResult + Sync,
        D: Fn(u64) -> Value + Sync,
    {
        let rad = take_rad(n);
        let hsub = format!("{}~history", sub);
        if let Some(code) = self.replay_index(&hsub) {
            if n > 0 {
                self.run_history(&hsub, code / n, code % n, n, &describe, &f);
            }
            return;
        }
        if !self.selected(sub) {
            return;
        }
        self.trace(&format!("sweep {} n={}", sub, n));
        let t_main = Instant::now();
        let before = self.inner.lock().unwrap().violations.len();
        self.sweep_main(sub, n, &describe, &f);
        if self.replay.is_none() && n >= 2 && self.inner.lock().unwrap().violations.len() == before {
            self.neighbour_histories(sub, &hsub, n, &rad, t_main.elapsed().as_secs_f64(), &describe, &f);
        }
    }

    /// Histories of neighbouring cases.  Every case of a sweep is evaluated on whatever worker thread, in no particular order;
    /// a result that depends on what the same thread computed just before (a memo keyed on part of the operands, a scratch
    /// buffer left behind) would go unnoticed.  For evenly spaced base cases i and, for every coordinate p of the cross
    /// product, the neighbour j that differs from i in coordinate p only, the call history i, j, i runs on a fresh thread;
    /// every evaluation must pass as it did alone.  The number of histories depends on the size of the sweep only.
    fn neighbour_histories<F, D>(&self, sub: &str, hsub: &str, n: u64, rad: &[u64], main_wall: f64, describe: &D, f: &F)
    where
        F: Fn(u64) -> CaseResult + Sync,
        D: Fn(u64) -> Value + Sync,
    {
        // the number of histories is a function of the size of the sweep only (so that the same cases are chosen on every run):
        // one per 64 cases, at least 8, at most 384; a wall-clock cap only guards against pathological cost and is reported
        let _ = main_wall;
        let max_h = (n / 64).max(8).min(384);
        let t_hist = Instant::now();
        let wall_cap = 45.0;
        let capped = std::sync::atomic::AtomicBool::new(false);
        let digits: Vec<usize> = (0..rad.len()).filter(|&p| rad[p] > 1).collect();
        if max_h == 0 || digits.is_empty() {
            return;
        }
        let nb = (max_h / digits.len() as u64).max(1).min(n);
        let mut pairs: Vec<(u64, u64)> = vec![];
        // the first cases of a sweep are the special values of its alphabets (0, 1, -1, 2, -2, O, g, -g, ...): always bases;
        // then evenly spaced ones
        let head = nb.min(6);
        let mut bases: Vec<u64> = (0..head).collect();
        for k in 0..nb.saturating_sub(head) {
            bases.push(((k as u128 * n as u128) / (nb - head) as u128) as u64);
        }
        for i in bases {
            let d = unrank(i, rad);
            for &p in &digits {
                let mut e = d.clone();
                e[p] = ((e[p] as u64 + 1) % rad[p]) as usize;
                let j = rank(&e, rad);
                if j != i && j < n {
                    pairs.push((i, j));
                }
            }
        }
        pairs.sort();
        pairs.dedup();
        pairs.truncate(max_h.max(1) as usize);
        let next = AtomicU64::new(0);
        let found: Mutex<Vec<(u64, u64, usize, Result<Fail, (String, String)>)>> = Mutex::new(vec![]);
        std::thread::scope(|s| {
            for _ in 0..self.threads.min(pairs.len().max(1)) {
                s.spawn(|| loop {
                    let k = next.fetch_add(1, Ordering::Relaxed) as usize;
                    if k >= pairs.len() {
                        break;
                    }
                    if t_hist.elapsed().as_secs_f64() > wall_cap {
                        capped.store(true, Ordering::Relaxed);
                        break;
                    }
                    let (i, j) = pairs[k];
                    if let Some((pos, r)) = Self::one_history(i, j, f) {
                        found.lock().unwrap().push((i, j, pos, r));
                    }
                });
            }
        });
        if capped.load(Ordering::Relaxed) {
            self.cap_hit(format!("{}: histories of neighbouring cases stopped after {} s", sub, wall_cap));
        }
        let mut found = found.into_inner().unwrap();
        found.sort_by_key(|x| (x.0, x.1));
        self.count("histories_of_neighbouring_cases", 3 * pairs.len() as u64, 3 * pairs.len() as u64, false, Some(json!({"what": "for base cases i of every sweep and each coordinate p, the neighbour j differing in coordinate p only: the calls i, j, i on a fresh thread must pass as they do alone", "first_sweep": sub, "histories_in_that_sweep": pairs.len()})));
        let mut g = self.inner.lock().unwrap();
        for (i, j, pos, r) in found.into_iter().take(2) {
            match r {
                Ok(fl) => g.violations.push(Violation {
                    sub: hsub.to_string(),
                    index: i * n + j,
                    desc: format!("{}: evaluation #{} of the call history [i, j, i] on one fresh thread fails although each case passes alone: {}", sub, pos + 1, fl.desc),
                    detail: json!({"case_i": describe(i), "case_j": describe(j), "observed": fl.detail}),
                }),
                Err((loc, msg)) => {
                    if is_subject_panic(&loc, &msg) {
                        g.violations.push(Violation {
                            sub: hsub.to_string(),
                            index: i * n + j,
                            desc: format!("{}: evaluation #{} of the call history [i, j, i] on one fresh thread panicked in the subject at {}: {}", sub, pos + 1, loc, msg),
                            detail: json!({"case_i": describe(i), "case_j": describe(j)}),
                        });
                    } else if loc.contains("src/zgroup.rs") && msg.starts_with("not implemented") {
                        // see sweep_main: the stand-in group is unsupported by the code under test; already reported there
                    } else {
                        g.machinery.push(format!("harness panic in {} history ({}, {}) at {}: {}", sub, i, j, loc, msg));
                    }
                }
            }
        }
    }

    /// the history i, j, i on a fresh thread; Some((position, failure)) for the first evaluation that does not pass
    fn one_history<F>(i: u64, j: u64, f: &F) -> Option<(usize, Result<Fail, (String, String)>)>
    where
        F: Fn(u64) -> CaseResult + Sync,
    {
        std::thread::scope(|s| {
            s.spawn(|| {
                for (pos, &c) in [i, j, i].iter().enumerate() {
                    let res = panic::catch_unwind(AssertUnwindSafe(|| f(c)));
                    let _ = take_bump();
                    match res {
                        Ok(Ok(_)) => {}
                        Ok(Err(fl)) => return Some((pos, Ok(fl))),
                        Err(_) => return Some((pos, Err(take_panic()))),
                    }
                }
                None
            })
            .join()
            .unwrap_or(None)
        })
    }

    fn run_history<F, D>(&self, hsub: &str, i: u64, j: u64, n: u64, describe: &D, f: &F)
    where
        F: Fn(u64) -> CaseResult + Sync,
        D: Fn(u64) -> Value + Sync,
    {
        let r = Self::one_history(i, j, f);
        let mut g = self.inner.lock().unwrap();
        g.order.push(hsub.to_string());
        let st = g.subs.entry(hsub.to_string()).or_default();
        st.evaluations += 3;
        st.samples.push(json!({"case_i": describe(i), "case_j": describe(j)}));
        match r {
            None => {}
            Some((pos, Ok(fl))) => g.violations.push(Violation { sub: hsub.to_string(), index: i * n + j, desc: format!("evaluation #{} of the call history [i, j, i] fails: {}", pos + 1, fl.desc), detail: json!({"case_i": describe(i), "case_j": describe(j), "observed": fl.detail}) }),
            Some((pos, Err((loc, msg)))) => {
                if is_subject_panic(&loc, &msg) {
                    g.violations.push(Violation { sub: hsub.to_string(), index: i * n + j, desc: format!("evaluation #{} of the call history [i, j, i] panicked in the subject at {}: {}", pos + 1, loc, msg), detail: json!({"case_i": describe(i), "case_j": describe(j)}) });
                } else {
                    g.machinery.push(format!("harness panic in {} at {}: {}", hsub, loc, msg));
                }
            }
        }
    }

    fn sweep_main<F, D>(&self, sub: &str, n: u64, describe: &D, f: &F)
    where
        F: Fn(u64) -> CaseResult + Sync,
        D: Fn(u64) -> Value + Sync,
    {
        if let Some(i) = self.replay_index(sub) {
            if i < n {
                self.run_one(sub, i, describe, f);
            } else {
                self.machinery(format!("replay index {} out of range {} for {}", i, n, sub));
            }
            return;
        }
        let next = AtomicU64::new(0);
        let chunk = (n / (self.threads as u64 * 16)).max(1).min(4096);
        struct Local {
            evals: u64,
            nontrivial: u64,
            classes: BTreeMap<&'static str, u64>,
            viols: Vec<Violation>,
            mach: Vec<String>,
            unsupported: u64,
        }
        let locals: Vec<Local> = std::thread::scope(|s| {
            let mut hs = Vec::new();
            for _ in 0..self.threads.min(n.max(1) as usize) {
                hs.push(s.spawn(|| {
                    let mut l = Local { evals: 0, nontrivial: 0, classes: BTreeMap::new(), viols: vec![], mach: vec![], unsupported: 0 };
                    loop {
                        let lo = next.fetch_add(chunk, Ordering::Relaxed);
                        if lo >= n {
                            break;
                        }
                        let hi = (lo + chunk).min(n);
                        for i in lo..hi {
                            l.evals += 1;
                            let res = panic::catch_unwind(AssertUnwindSafe(|| f(i)));
                            let extra = take_bump();
                            l.evals += extra;
                            match res {
                                Ok(Ok(class)) => {
                                    if !class.is_empty() {
                                        if !is_trivial_class(class) {
                                            l.nontrivial += 1 + extra;
                                        }
                                        *l.classes.entry(class).or_insert(0) += 1 + extra;
                                    }
                                }
                                Ok(Err(fl)) => {
                                    if l.viols.len() < 8 {
                                        l.viols.push(Violation { sub: sub.to_string(), index: i, desc: fl.desc, detail: fl.detail });
                                    }
                                }
                                Err(_) => {
                                    let (loc, msg) = take_panic();
                                    if is_subject_panic(&loc, &msg) {
                                        if l.viols.len() < 8 {
                                            l.viols.push(Violation {
                                                sub: sub.to_string(),
                                                index: i,
                                                desc: format!("subject panicked at {}: {}", loc, msg),
                                                detail: Value::Null,
                                            });
                                        }
                                    } else if loc.contains("src/zgroup.rs") && msg.starts_with("not implemented") {
                                        // the exponent-tracking stand-in group was asked for something it does not have
                                        // (coordinates, tables): the generic code under test changed what it needs from a group.
                                        // Not a verdict and not a harness failure: this part is skipped and said so.
                                        l.unsupported += 1;
                                    } else if l.mach.len() < 4 {
                                        l.mach.push(format!("harness panic in {} case {} at {}: {}", sub, i, loc, msg));
                                    }
                                }
                            }
                        }
                    }
                    l
                }));
            }
            hs.into_iter().map(|h| h.join().expect("worker")).collect()
        });
        let mut g = self.inner.lock().unwrap();
        if !g.subs.contains_key(sub) {
            g.order.push(sub.to_string());
        }
        let mut viols = vec![];
        let mut machs: Vec<String> = vec![];
        let mut unsupported = 0u64;
        {
            let st = g.subs.entry(sub.to_string()).or_default();
            st.space += n;
            st.exhaustive = true;
            for l in locals {
                st.evaluations += l.evals;
                st.nontrivial += l.nontrivial;
                for (k, v) in l.classes {
                    *st.classes.entry(k.to_string()).or_insert(0) += v;
                }
                viols.extend(l.viols);
                machs.extend(l.mach);
                unsupported += l.unsupported;
            }
            if n > 0 && st.samples.len() < 4 {
                for &i in &[0, n / 2, n - 1] {
                    if st.samples.len() < 4 {
                        let mut d = describe(i);
                        if let Value::Object(ref mut m) = d {
                            m.insert("_index".into(), json!(i));
                        }
                        st.samples.push(d);
                    }
                }
            }
        }
        g.machinery.extend(machs);
        if unsupported > 0 {
            println!("DEGRADED property={} {}: {} cases skipped: the exponent-tracking stand-in group does not offer what the generic code now asks of it (coordinates / tables)", self.id, sub, unsupported);
            g.caps_hit.push(format!("{}: {} cases skipped (exponent-group stand-in unsupported by the code under test)", sub, unsupported));
        }
        viols.sort_by_key(|v| v.index);
        for mut v in viols.into_iter().take(3) {
            if v.detail.is_null() {
                v.detail = describe(v.index);
            } else {
                v.detail = json!({"case": describe(v.index), "observed": v.detail});
            }
            g.violations.push(v);
        }
    }

    fn run_one<F, D>(&self, sub: &str, i: u64, describe: &D, f: &F)
    where
        F: Fn(u64) -> CaseResult + Sync,
        D: Fn(u64) -> Value + Sync,
    {
        let r = panic::catch_unwind(AssertUnwindSafe(|| f(i)));
        let mut g = self.inner.lock().unwrap();
        g.order.push(sub.to_string());
        let st = g.subs.entry(sub.to_string()).or_default();
        st.evaluations += 1;
        st.samples.push(describe(i));
        match r {
            Ok(Ok(_)) => {}
            Ok(Err(fl)) => g.violations.push(Violation { sub: sub.to_string(), index: i, desc: fl.desc, detail: json!({"case": describe(i), "observed": fl.detail}) }),
            Err(_) => {
                let (loc, msg) = take_panic();
                if is_subject_panic(&loc, &msg) {
                    g.violations.push(Violation { sub: sub.to_string(), index: i, desc: format!("subject panicked at {}: {}", loc, msg), detail: describe(i) });
                } else {
                    g.machinery.push(format!("harness panic in {} case {} at {}: {}", sub, i, loc, msg));
                }
            }
        }
    }

    /// Finish: write evidence, replay files, print verdict lines, return the exit code.
    pub fn finish(&self, level: &str, rule: &str) -> i32 {
        let g = self.inner.lock().unwrap();
        let wall = self.start.elapsed().as_secs_f64();
        let mut evaluations = 0u64;
        let mut nontrivial = 0u64;
        let mut per_sub = Map::new();
        let mut samples: Vec<Value> = vec![];
        let mut exhaustive = true;
        for name in &g.order {
            if let Some(st) = g.subs.get(name) {
                if per_sub.contains_key(name) {
                    continue;
                }
                evaluations += st.evaluations;
                nontrivial += st.nontrivial;
                exhaustive &= st.exhaustive;
                per_sub.insert(
                    name.clone(),
                    json!({"evaluations": st.evaluations, "space": st.space, "nontrivial": st.nontrivial,
                           "classes": st.classes, "exhaustive": st.exhaustive}),
                );
                for s in st.samples.iter().take(2) {
                    if samples.len() < 24 {
                        samples.push(json!({"sub": name, "case": s}));
                    }
                }
            }
        }
        if !g.caps_hit.is_empty() {
            exhaustive = false;
        }
        let mut coverage = Map::new();
        coverage.insert("evaluations".into(), json!(evaluations));
        coverage.insert("distinct_nontrivial".into(), json!(nontrivial));
        coverage.insert("rule".into(), json!(rule));
        for s in &g.mc_samples {
            samples.push(s.clone());
        }
        coverage.insert("samples".into(), Value::Array(samples));
        coverage.insert("exhaustive".into(), json!(exhaustive));
        coverage.insert("caps_hit".into(), json!(g.caps_hit));
        coverage.insert("per_sub".into(), Value::Object(per_sub));
        if level == "model_checking" || g.states > 0 {
            coverage.insert("states".into(), json!(g.states));
            coverage.insert("transitions".into(), json!(g.transitions));
            coverage.insert("traces_validated_against_impl".into(), json!(g.traces_validated));
        }
        for (k, v) in g.extra.iter() {
            coverage.insert(k.clone(), v.clone());
        }
        coverage.insert("notes".into(), json!(g.notes));

        // classify violations against the known-findings file
        let known = load_known_findings();
        let mut new_viol: Vec<&Violation> = vec![];
        let mut known_hits: BTreeMap<String, u64> = BTreeMap::new();
        for v in &g.violations {
            let mut matched = None;
            for k in &known {
                if k.status == "open" && k.property == self.id && k.sub == v.sub && v.desc.contains(&k.key) {
                    matched = Some(k);
                    break;
                }
            }
            match matched {
                Some(k) => *known_hits.entry(format!("{} [{}] {}", k.sub, k.key, k.note)).or_insert(0) += 1,
                None => new_viol.push(v),
            }
        }
        let ev = json!({
            "property_id": self.id,
            "tier": self.tier.name(),
            "seed": self.seed,
            "level": level,
            "coverage": Value::Object(coverage),
            "assumptions": g.assumptions,
            "wall_s": wall,
            "violations": new_viol.len(),
            "known_findings_hit": known_hits.len(),
            "machinery_errors": g.machinery,
        });
        if self.replay.is_none() {
            let path = format!("{}/evidence/{}.json", verif_root(), self.id);
            let _ = std::fs::create_dir_all(format!("{}/evidence", verif_root()));
            if let Err(e) = std::fs::write(&path, serde_json::to_string_pretty(&ev).unwrap()) {
                eprintln!("MACHINERY: cannot write evidence {}: {}", path, e);
                return 2;
            }
        }
        for (k, n) in &known_hits {
            println!("KNOWN-FINDING: property={} {} ({} cases)", self.id, k, n);
        }
        if !g.machinery.is_empty() {
            for m in g.machinery.iter().take(5) {
                println!("MACHINERY-ERROR property={} {}", self.id, m);
            }
            if g.machinery.len() > 5 {
                println!("MACHINERY-ERROR property={} ... and {} more", self.id, g.machinery.len() - 5);
            }
            // a violation found elsewhere in the same run is still a verdict
            if new_viol.is_empty() {
                return 2;
            }
        }
        if new_viol.is_empty() {
            println!(
                "OK property={} tier={} evaluations={} nontrivial={} states={} wall_s={:.1}",
                self.id, self.tier.name(), evaluations, nontrivial, g.states, wall
            );
            return 0;
        }
        let _ = std::fs::create_dir_all(format!("{}/replays", verif_root()));
        for v in new_viol.iter().take(5) {
            let mut h: u64 = 0xcbf29ce484222325;
            for b in format!("{}|{}|{}", v.sub, v.index, v.desc).bytes() {
                h = (h ^ b as u64).wrapping_mul(0x100000001b3);
            }
            let path = format!("{}/replays/{}-{:016x}.json", verif_root(), self.id, h);
            let rp = json!({
                "property": self.id, "sub": v.sub, "index": v.index, "tier": self.tier.name(), "seed": self.seed,
                "desc": v.desc, "detail": v.detail,
                "replay_cmd": format!("/verif/run.sh {} --replay {}", self.id, path),
            });
            if self.replay.is_none() {
                let _ = std::fs::write(&path, serde_json::to_string_pretty(&rp).unwrap());
            }
            println!("VIOLATION property={} replay={}", self.id, path);
            println!("  sub={} index={} : {}", v.sub, v.index, v.desc);
        }
        1
    }
}

pub struct Known {
    pub property: String,
    pub sub: String,
    pub key: String,
    pub status: String,
    pub note: String,
}

pub fn load_known_findings() -> Vec<Known> {
    let mut out = vec![];
    if let Ok(s) = std::fs::read_to_string(format!("{}/known_findings.json", verif_root())) {
        if let Ok(Value::Object(m)) = serde_json::from_str::<Value>(&s) {
            if let Some(Value::Array(a)) = m.get("findings") {
                for e in a {
                    let gs = |k: &str| e.get(k).and_then(|v| v.as_str()).unwrap_or("").to_string();
                    out.push(Known { property: gs("property"), sub: gs("sub"), key: gs("key"), status: gs("status"), note: gs("note") });
                }
            }
        }
    }
    out
}

/// Decode a flat index into mixed-radix digits (least significant first).
pub fn unrank(mut i: u64, radices: &[u64]) -> Vec<usize> {
    let mut out = Vec::with_capacity(radices.len());
    for &r in radices {
        out.push((i % r) as usize);
        i /= r;
    }
    out
}
thread_local! {
    static LAST_RAD: RefCell<Option<Vec<u64>>> = RefCell::new(None);
}
/// size of a cross product; the radices are remembered (per thread) so that the sweep that is about to enumerate this space
/// knows its factorisation (used for the histories of neighbouring cases)
pub fn space(radices: &[u64]) -> u64 {
    LAST_RAD.with(|r| *r.borrow_mut() = Some(radices.to_vec()));
    radices.iter().product()
}
fn take_rad(n: u64) -> Vec<u64> {
    match LAST_RAD.with(|r| r.borrow_mut().take()) {
        Some(v) if n > 0 && v.iter().product::<u64>() == n => v,
        _ => vec![n],
    }
}
fn rank(d: &[usize], radices: &[u64]) -> u64 {
    let mut i = 0u64;
    for (k, &r) in radices.iter().enumerate().rev() {
        i = i * r + d[k] as u64;
    }
    i
}

/// Parallel map over 0..n preserving order (for building alphabets with the reference model).
pub fn par_map<T: Send, F: Fn(usize) -> T + Sync>(n: usize, f: F) -> Vec<T> {
    let threads = std::thread::available_parallelism().map(|n| n.get()).unwrap_or(4);
    let next = AtomicU64::new(0);
    let mut parts: Vec<Vec<(usize, T)>> = std::thread::scope(|s| {
        let hs: Vec<_> = (0..threads.min(n.max(1)))
            .map(|_| {
                s.spawn(|| {
                    let mut v = vec![];
                    loop {
                        let i = next.fetch_add(1, Ordering::Relaxed) as usize;
                        if i >= n {
                            break;
                        }
                        v.push((i, f(i)));
                    }
                    v
                })
            })
            .collect();
        hs.into_iter().map(|h| h.join().expect("par_map worker")).collect()
    });
    let mut all: Vec<(usize, T)> = parts.drain(..).flatten().collect();
    all.sort_by_key(|x| x.0);
    all.into_iter().map(|x| x.1).collect()
}
