//! Conversions between the subject's types and the reference model's types.
#![allow(dead_code)]
use crate::refmodel::*;
use ff::{PrimeField, PrimeFieldRepr};
use num_bigint::BigUint;
use num_traits::Zero;
use pairing_plus::bls12_381::{transmute, Fq, Fq12, Fq2, Fq6, FqRepr, Fr, FrRepr, G1Affine, G2Affine, G1, G2};
use pairing_plus::{CurveAffine, CurveProjective};

pub fn limbs_to_big(l: &[u64]) -> BigUint {
    let mut bytes = Vec::with_capacity(l.len() * 8);
    for w in l {
        bytes.extend_from_slice(&w.to_le_bytes());
    }
    BigUint::from_bytes_le(&bytes)
}
pub fn big_to_limbs(x: &BigUint, n: usize) -> Vec<u64> {
    let bytes = x.to_bytes_le();
    assert!(bytes.len() <= n * 8, "integer does not fit in {} limbs", n);
    let mut out = vec![0u64; n];
    for (i, b) in bytes.iter().enumerate() {
        out[i / 8] |= (*b as u64) << (8 * (i % 8));
    }
    out
}
pub fn fqrepr(x: &BigUint) -> FqRepr {
    let l = big_to_limbs(x, 6);
    FqRepr([l[0], l[1], l[2], l[3], l[4], l[5]])
}
pub fn frrepr(x: &BigUint) -> FrRepr {
    let l = big_to_limbs(x, 4);
    FrRepr([l[0], l[1], l[2], l[3]])
}
pub fn fq_int(x: &Fq) -> BigUint {
    limbs_to_big(&x.into_repr().0)
}
pub fn fr_int(x: &Fr) -> BigUint {
    limbs_to_big(&x.into_repr().0)
}
/// subject Fq from a reduced integer (panics in the harness if not reduced: callers reduce first)
pub fn fq(x: &BigUint) -> Fq {
    Fq::from_repr(fqrepr(x)).expect("harness: integer not reduced mod q")
}
pub fn fr(x: &BigUint) -> Fr {
    Fr::from_repr(frrepr(x)).expect("harness: integer not reduced mod r")
}
pub fn fq_of(x: &Q1) -> Fq {
    fq(x.int())
}
pub fn q1_of(x: &Fq) -> Q1 {
    Q1::new(fq_int(x))
}
pub fn fq2_of(x: &Q2) -> Fq2 {
    Fq2 { c0: fq_of(x.c(0)), c1: fq_of(x.c(1)) }
}
pub fn q2_of(x: &Fq2) -> Q2 {
    Q2::new(vec![q1_of(&x.c0), q1_of(&x.c1)])
}
pub fn fq6_of(x: &Q6) -> Fq6 {
    Fq6 { c0: fq2_of(x.c(0)), c1: fq2_of(x.c(1)), c2: fq2_of(x.c(2)) }
}
pub fn q6_of(x: &Fq6) -> Q6 {
    Q6::new(vec![q2_of(&x.c0), q2_of(&x.c1), q2_of(&x.c2)])
}
pub fn fq12_of(x: &Q12) -> Fq12 {
    Fq12 { c0: fq6_of(x.c(0)), c1: fq6_of(x.c(1)) }
}
pub fn q12_of(x: &Fq12) -> Q12 {
    Q12::new(vec![q6_of(&x.c0), q6_of(&x.c1)])
}

pub fn g1aff_of(p: &Pt<Q1>) -> G1Affine {
    match p {
        Pt::Inf => G1Affine::zero(),
        Pt::Aff(x, y) => unsafe { transmute::g1_affine(fq_of(x), fq_of(y), false) },
    }
}
pub fn g2aff_of(p: &Pt<Q2>) -> G2Affine {
    match p {
        Pt::Inf => G2Affine::zero(),
        Pt::Aff(x, y) => unsafe { transmute::g2_affine(fq2_of(x), fq2_of(y), false) },
    }
}
pub fn pt_of_g1aff(p: &G1Affine) -> Pt<Q1> {
    if p.is_zero() {
        Pt::Inf
    } else {
        let (x, y) = p.as_tuple();
        Pt::Aff(q1_of(x), q1_of(y))
    }
}
pub fn pt_of_g2aff(p: &G2Affine) -> Pt<Q2> {
    if p.is_zero() {
        Pt::Inf
    } else {
        let (x, y) = p.as_tuple();
        Pt::Aff(q2_of(x), q2_of(y))
    }
}
/// Jacobian representative (l^2 x, l^3 y, l) of an affine reference point; identity as (x0, y0, 0)
pub fn g1_rep(p: &Pt<Q1>, l: &Q1) -> G1 {
    match p {
        Pt::Inf => unsafe { transmute::g1_projective(fq_of(&Q1::zero()), fq_of(&Q1::one()), fq_of(&Q1::zero())) },
        Pt::Aff(x, y) => {
            let l2 = l.sq();
            let l3 = l2.mul(l);
            unsafe { transmute::g1_projective(fq_of(&x.mul(&l2)), fq_of(&y.mul(&l3)), fq_of(l)) }
        }
    }
}
pub fn g2_rep(p: &Pt<Q2>, l: &Q2) -> G2 {
    match p {
        Pt::Inf => unsafe { transmute::g2_projective(fq2_of(&Q2::zero()), fq2_of(&Q2::one()), fq2_of(&Q2::zero())) },
        Pt::Aff(x, y) => {
            let l2 = l.sq();
            let l3 = l2.mul(l);
            unsafe { transmute::g2_projective(fq2_of(&x.mul(&l2)), fq2_of(&y.mul(&l3)), fq2_of(l)) }
        }
    }
}
/// reference normalisation of a Jacobian triple: (X/Z^2, Y/Z^3) or Inf when Z = 0
pub fn pt_of_jac<F: RF>(x: &F, y: &F, z: &F) -> Pt<F> {
    if z.is_zero() {
        return Pt::Inf;
    }
    let zi = z.inv().unwrap();
    let zi2 = zi.sq();
    Pt::Aff(x.mul(&zi2), y.mul(&zi2.mul(&zi)))
}
pub fn pt_of_g1(p: &G1) -> Pt<Q1> {
    let (x, y, z) = p.as_tuple();
    pt_of_jac(&q1_of(x), &q1_of(y), &q1_of(z))
}
pub fn pt_of_g2(p: &G2) -> Pt<Q2> {
    let (x, y, z) = p.as_tuple();
    pt_of_jac(&q2_of(x), &q2_of(y), &q2_of(z))
}
pub fn scalar_repr(k: &BigUint) -> FrRepr {
    frrepr(k)
}
pub fn is_zero_big(x: &BigUint) -> bool {
    x.is_zero()
}
pub fn hex_q1(x: &Q1) -> String {
    hex(x.int())
}
pub fn hex_q2(x: &Q2) -> String {
    format!("({} + {}*u)", hex(x.c(0).int()), hex(x.c(1).int()))
}
pub fn show_pt1(p: &Pt<Q1>) -> String {
    match p {
        Pt::Inf => "Inf".into(),
        Pt::Aff(x, y) => format!("({}, {})", hex_q1(x), hex_q1(y)),
    }
}
pub fn show_pt2(p: &Pt<Q2>) -> String {
    match p {
        Pt::Inf => "Inf".into(),
        Pt::Aff(x, y) => format!("({}, {})", hex_q2(x), hex_q2(y)),
    }
}

// ---------------------------------------------------------------------------------------------
// uniform access to the two real groups
// ---------------------------------------------------------------------------------------------
pub trait RealCurve: 'static + Sync + Send {
    type K: RF;
    type Proj: CurveProjective<Affine = Self::Aff, Scalar = Fr> + Sync + Send;
    type Aff: CurveAffine<Projective = Self::Proj, Scalar = Fr> + Sync + Send;
    const NAME: &'static str;
    fn curve() -> Curve<Self::K>;
    fn gen() -> Pt<Self::K>;
    fn aff_of(p: &Pt<Self::K>) -> Self::Aff;
    fn pt_of_aff(a: &Self::Aff) -> Pt<Self::K>;
    fn rep(p: &Pt<Self::K>, l: &Self::K) -> Self::Proj;
    fn raw(x: &Self::K, y: &Self::K, z: &Self::K) -> Self::Proj;
    fn raw_of(p: &Self::Proj) -> (Self::K, Self::K, Self::K);
    fn pt_of(p: &Self::Proj) -> Pt<Self::K> {
        let (x, y, z) = Self::raw_of(p);
        pt_of_jac(&x, &y, &z)
    }
    fn show(p: &Pt<Self::K>) -> String;
    fn showk(k: &Self::K) -> String;
    fn show_raw(p: &Self::Proj) -> String {
        let (x, y, z) = Self::raw_of(p);
        format!("[X={}, Y={}, Z={}]", Self::showk(&x), Self::showk(&y), Self::showk(&z))
    }
    /// Y^2 = X^3 + b Z^6 or Z = 0
    fn raw_on_curve(p: &Self::Proj) -> bool {
        let (x, y, z) = Self::raw_of(p);
        if z.is_zero() {
            return true;
        }
        let z2 = z.sq();
        let z6 = z2.sq().mul(&z2);
        y.sq() == x.sq().mul(&x).add(&Self::curve().b.mul(&z6))
    }
}
pub struct RG1;
pub struct RG2;
impl RealCurve for RG1 {
    type K = Q1;
    type Proj = G1;
    type Aff = G1Affine;
    const NAME: &'static str = "G1";
    fn curve() -> Curve<Q1> {
        e1()
    }
    fn gen() -> Pt<Q1> {
        g1_gen()
    }
    fn aff_of(p: &Pt<Q1>) -> G1Affine {
        g1aff_of(p)
    }
    fn pt_of_aff(a: &G1Affine) -> Pt<Q1> {
        pt_of_g1aff(a)
    }
    fn rep(p: &Pt<Q1>, l: &Q1) -> G1 {
        g1_rep(p, l)
    }
    fn raw(x: &Q1, y: &Q1, z: &Q1) -> G1 {
        unsafe { transmute::g1_projective(fq_of(x), fq_of(y), fq_of(z)) }
    }
    fn raw_of(p: &G1) -> (Q1, Q1, Q1) {
        let (x, y, z) = p.as_tuple();
        (q1_of(x), q1_of(y), q1_of(z))
    }
    fn show(p: &Pt<Q1>) -> String {
        show_pt1(p)
    }
    fn showk(k: &Q1) -> String {
        hex_q1(k)
    }
}
impl RealCurve for RG2 {
    type K = Q2;
    type Proj = G2;
    type Aff = G2Affine;
    const NAME: &'static str = "G2";
    fn curve() -> Curve<Q2> {
        e2()
    }
    fn gen() -> Pt<Q2> {
        g2_gen()
    }
    fn aff_of(p: &Pt<Q2>) -> G2Affine {
        g2aff_of(p)
    }
    fn pt_of_aff(a: &G2Affine) -> Pt<Q2> {
        pt_of_g2aff(a)
    }
    fn rep(p: &Pt<Q2>, l: &Q2) -> G2 {
        g2_rep(p, l)
    }
    fn raw(x: &Q2, y: &Q2, z: &Q2) -> G2 {
        unsafe { transmute::g2_projective(fq2_of(x), fq2_of(y), fq2_of(z)) }
    }
    fn raw_of(p: &G2) -> (Q2, Q2, Q2) {
        let (x, y, z) = p.as_tuple();
        (q2_of(x), q2_of(y), q2_of(z))
    }
    fn show(p: &Pt<Q2>) -> String {
        show_pt2(p)
    }
    fn showk(k: &Q2) -> String {
        hex_q2(k)
    }
}
