//! Explicit-state exploration with stateright: every transition calls the real operation, the refinement
//! check (abstraction of the new state == model step of the abstraction of the old state) is evaluated on
//! every transition, and a failed check becomes an absorbing Bad state that violates the `always` property.
#![allow(dead_code)]
use stateright::{Checker, Model, Property};
use std::fmt::Debug;
use std::hash::Hash;
use std::sync::atomic::{AtomicU64, Ordering};

pub trait Sys: Sync + Send + 'static {
    type S: Clone + Hash + Eq + Debug + Send + Sync + 'static;
    type A: Clone + Debug + PartialEq + Send + Sync + 'static;
    fn inits(&self) -> Vec<Self::S>;
    fn actions(&self, s: &Self::S, out: &mut Vec<Self::A>);
    /// the real step plus the refinement check; Err(description) on violation
    fn step(&self, s: &Self::S, a: &Self::A) -> Result<Self::S, String>;
}

#[derive(Clone, Hash, PartialEq, Eq, Debug)]
pub enum St<S> {
    Ok(S),
    Bad(String),
}

pub struct Wrap<T: Sys> {
    pub sys: T,
    pub transitions: AtomicU64,
}

impl<T: Sys> Model for Wrap<T> {
    type State = St<T::S>;
    type Action = T::A;
    fn init_states(&self) -> Vec<Self::State> {
        self.sys.inits().into_iter().map(St::Ok).collect()
    }
    fn actions(&self, state: &Self::State, actions: &mut Vec<Self::Action>) {
        if let St::Ok(s) = state {
            self.sys.actions(s, actions);
        }
    }
    fn next_state(&self, last: &Self::State, action: Self::Action) -> Option<Self::State> {
        match last {
            St::Bad(_) => None,
            St::Ok(s) => {
                self.transitions.fetch_add(1, Ordering::Relaxed);
                let r = std::panic::catch_unwind(std::panic::AssertUnwindSafe(|| self.sys.step(s, &action)));
                match r {
                    Ok(Ok(n)) => Some(St::Ok(n)),
                    Ok(Err(e)) => Some(St::Bad(e)),
                    Err(_) => Some(St::Bad("panic during transition".to_string())),
                }
            }
        }
    }
    fn properties(&self) -> Vec<Property<Self>> {
        vec![Property::always("refinement", |_, s| !matches!(s, St::Bad(_)))]
    }
}

pub struct McResult<A> {
    pub unique_states: u64,
    pub generated_states: u64,
    pub transitions: u64,
    pub max_depth: u64,
    pub violation: Option<(Vec<A>, String)>,
}

pub fn explore<T: Sys>(sys: T, max_depth: Option<usize>, threads: usize, dfs: bool) -> McResult<T::A> {
    let w = Wrap { sys, transitions: AtomicU64::new(0) };
    let mut b = w.checker().threads(threads);
    if let Some(d) = max_depth {
        // stateright counts the initial state as depth 1: d actions = depth d + 1
        b = b.target_max_depth(d + 1);
    }
    macro_rules! fin {
        ($c:expr) => {{
            let c = $c;
            let violation = c.discovery("refinement").map(|p| {
                let last = p.last_state().clone();
                let msg = match last {
                    St::Bad(m) => m,
                    _ => "?".to_string(),
                };
                (p.into_actions(), msg)
            });
            McResult {
                unique_states: c.unique_state_count() as u64,
                generated_states: c.state_count() as u64,
                transitions: c.model().transitions.load(Ordering::Relaxed),
                max_depth: c.max_depth() as u64,
                violation,
            }
        }};
    }
    if dfs {
        fin!(b.spawn_dfs().join())
    } else {
        fin!(b.spawn_bfs().join())
    }
}
