//! Real-curve point alphabets computed with the reference model (DESIGN.md C01/C04/C07/C17):
//! subgroup points, order-3 and other small-order points, points of order l*r, full-order points,
//! endomorphism images with equal y, the identity.
#![allow(dead_code)]
use crate::alpha;
use crate::infra::{par_map, SplitMix};
use crate::refmodel::*;
use num_bigint::BigUint;
use num_traits::One;

#[derive(Clone, Debug)]
pub struct NamedPt<F: RF> {
    pub name: String,
    pub p: Pt<F>,
    pub in_subgroup: bool,
}

/// first curve point with x = start, start+1, ... (embedding the counter into the field)
pub fn lift_from<F: RF>(c: &Curve<F>, mk: &dyn Fn(u64) -> F, sqrt: &dyn Fn(&F) -> Option<F>, start: u64) -> (Pt<F>, u64) {
    let mut k = start;
    loop {
        let x = mk(k);
        if let Some(p) = c.lift_x(&x, sqrt) {
            return (p, k);
        }
        k += 1;
    }
}

/// primitive cube root of unity in Fq
pub fn beta() -> Q1 {
    // (-1 + sqrt(-3)) / 2
    let m3 = Q1::from_u64(3).neg();
    let s = m3.sqrt().expect("-3 must be a square mod q (q = 1 mod 3)");
    let b = s.sub(&Q1::one()).mul(&Q1::from_u64(2).inv().unwrap());
    assert!(b.sq().mul(&b) == Q1::one() && b != Q1::one());
    b
}

/// a point of order exactly l (prime) derived from `rr`: kill everything but the l-Sylow part, then
/// multiply by l until the next step would give the identity.  None if rr has trivial l-part.
pub fn order_l_component<F: RF>(c: &Curve<F>, rr: &Pt<F>, group_order: &BigUint, l: u64) -> Option<Pt<F>> {
    let lb = BigUint::from(l);
    let mut m = group_order.clone();
    while (&m % &lb) == BigUint::from(0u32) {
        m = &m / &lb;
    }
    let mut p = c.mul(rr, &m);
    if p.is_inf() {
        return None;
    }
    loop {
        let p2 = c.mul(&p, &lb);
        if p2.is_inf() {
            return Some(p);
        }
        p = p2;
    }
}

pub fn g1_small_primes() -> Vec<u64> {
    vec![3, 11, 10177, 859267, 52437899]
}
pub fn g2_small_primes() -> Vec<u64> {
    vec![13, 23, 2713, 11953, 262069]
}

fn finish<F: RF>(c: &Curve<F>, v0: Vec<(String, Pt<F>)>) -> Vec<NamedPt<F>> {
    // negation partners sit next to each other (same x, opposite y: what a memo keyed on x alone, or a sign rule, confuses):
    // the generator, the first seeded multiple and the full-order point are each followed by their negative
    let mut v: Vec<(String, Pt<F>)> = vec![];
    let mut seeded_done = false;
    for (name, p) in v0 {
        let partner = name == "g1" || name == "g2" || (name.starts_with('[') && !seeded_done) || name.starts_with("R0 (");
        if name.starts_with('[') {
            seeded_done = true;
        }
        let n = (if name == "g1" || name == "g2" { format!("-{}", name) } else { format!("-({})", name) }, c.neg(&p));
        v.push((name, p));
        if partner {
            v.push(n);
        }
    }
    // dedup by value
    let mut seen = std::collections::HashSet::new();
    v.retain(|(_, p)| seen.insert(p.clone()));
    let flags = par_map(v.len(), |i| {
        assert!(c.on_curve(&v[i].1), "alphabet point {} not on curve", v[i].0);
        c.mul(&v[i].1, r()).is_inf()
    });
    v.into_iter().zip(flags).map(|((name, p), s)| NamedPt { name, p, in_subgroup: s }).collect()
}

pub fn g1_points(rng: &mut SplitMix, n_seeded: usize, n_small: usize) -> Vec<NamedPt<Q1>> {
    let c = e1();
    let g = g1_gen();
    let hr = &params().h1 * r();
    let mk = |k: u64| Q1::from_u64(k);
    let sq = |x: &Q1| x.sqrt();
    let mut v: Vec<(String, Pt<Q1>)> = vec![("O".into(), Pt::Inf), ("g1".into(), g.clone())];
    v.push(("2*g1".into(), c.dbl(&g)));
    v.push(("3*g1".into(), c.add(&c.dbl(&g), &g)));
    v.push(("-g1".into(), c.neg(&g)));
    let b = beta();
    if let Pt::Aff(x, y) = &g {
        v.push(("beta*g1 (same y)".into(), Pt::Aff(x.mul(&b), y.clone())));
        v.push(("beta^2*g1 (same y)".into(), Pt::Aff(x.mul(&b).mul(&b), y.clone())));
    }
    let t3 = Pt::Aff(Q1::zero(), Q1::from_u64(2));
    v.push(("T3=(0,2) order 3".into(), t3.clone()));
    v.push(("-T3=(0,-2)".into(), c.neg(&t3)));
    v.push(("T3+g1 order 3r".into(), c.add(&t3, &g)));
    let ks: Vec<BigUint> = (0..n_seeded).map(|_| alpha::rand_below(rng, r())).collect();
    let seeded = par_map(ks.len(), |i| c.mul(&g, &ks[i]));
    for (i, p) in seeded.into_iter().enumerate() {
        v.push((format!("[{}]g1", hex(&ks[i])), p));
    }
    // small-order points: (h1*r/l) * R for curve points R found by counting x upward
    let primes: Vec<u64> = g1_small_primes().into_iter().skip(1).take(n_small).collect();
    let (r0, k0) = lift_from(&c, &mk, &sq, 1 + rng.below(1000));
    v.push((format!("R0 (x={}) full curve", k0), r0.clone()));
    v.push(("R0+g1".into(), c.add(&r0, &g)));
    let small = par_map(primes.len(), |i| {
        let l = primes[i];
        let mut start = 1u64;
        loop {
            let (rr, k) = lift_from(&c, &mk, &sq, start);
            if let Some(p) = order_l_component(&c, &rr, &hr, l) {
                return p;
            }
            start = k + 1;
        }
    });
    for (l, p) in primes.iter().zip(small.into_iter()) {
        v.push((format!("P{} order {}", l, l), p.clone()));
        v.push((format!("P{}+g1 order {}r", l, l), c.add(&p, &g)));
    }
    finish(&c, v)
}

pub fn g2_points(rng: &mut SplitMix, n_seeded: usize, n_small: usize) -> Vec<NamedPt<Q2>> {
    let c = e2();
    let g = g2_gen();
    let hr = &params().h2 * r();
    let mk = |k: u64| q2u(k, 1);
    let sq = |x: &Q2| x.sqrt();
    let mut v: Vec<(String, Pt<Q2>)> = vec![("O".into(), Pt::Inf), ("g2".into(), g.clone())];
    v.push(("2*g2".into(), c.dbl(&g)));
    v.push(("3*g2".into(), c.add(&c.dbl(&g), &g)));
    v.push(("-g2".into(), c.neg(&g)));
    let b = beta();
    if let Pt::Aff(x, y) = &g {
        v.push(("beta*g2 (same y)".into(), Pt::Aff(x.scale(&b), y.clone())));
    }
    let ks: Vec<BigUint> = (0..n_seeded).map(|_| alpha::rand_below(rng, r())).collect();
    let seeded = par_map(ks.len(), |i| c.mul(&g, &ks[i]));
    for (i, p) in seeded.into_iter().enumerate() {
        v.push((format!("[{}]g2", hex(&ks[i])), p));
    }
    let primes: Vec<u64> = g2_small_primes().into_iter().take(n_small).collect();
    let (r0, k0) = lift_from(&c, &mk, &sq, 1 + rng.below(1000));
    v.push((format!("R0 (x={}+u) full curve", k0), r0.clone()));
    v.push(("R0+g2".into(), c.add(&r0, &g)));
    let small = par_map(primes.len(), |i| {
        let l = primes[i];
        let mut start = 1u64;
        loop {
            let (rr, k) = lift_from(&c, &mk, &sq, start);
            if let Some(p) = order_l_component(&c, &rr, &hr, l) {
                return p;
            }
            start = k + 1;
        }
    });
    for (l, p) in primes.iter().zip(small.into_iter()) {
        v.push((format!("P{} order {}", l, l), p.clone()));
        v.push((format!("P{}+g2 order {}r", l, l), c.add(&p, &g)));
    }
    let _ = BigUint::one();
    finish(&c, v)
}

/// Jacobian scaling factors used for "any projective representation" on the real curves
pub fn lambdas_q1(rng: &mut SplitMix, n_seeded: usize) -> Vec<Q1> {
    let mut v = vec![Q1::one(), Q1::from_u64(2), Q1::one().neg()];
    for _ in 0..n_seeded {
        v.push(Q1::new(alpha::rand_below(rng, q())));
    }
    v
}
pub fn lambdas_q2(rng: &mut SplitMix, n_seeded: usize) -> Vec<Q2> {
    let mut v = vec![Q2::one(), q2u(2, 0), Q2::one().neg(), q2u(0, 1)];
    for _ in 0..n_seeded {
        v.push(Q2::new(vec![Q1::new(alpha::rand_below(rng, q())), Q1::new(alpha::rand_below(rng, q()))]));
    }
    v
}
